"""Recursive grammar shapes for C02/C03/C04/C11/C12 (specs as in gen/grammars.py)."""


def family(usize=2):
    D = {'T': 2}
    S = []

    def g(name, nts, terms, rules, linear, start='S'):
        S.append({'name': name, 'linear': linear,
                  'spec': {'start': start, 'domains': D, 'nonterminals': nts, 'terminals': terms, 'rules': rules}})
    # x = p x + q            (scalar, linear)
    g('scalar_linear', {'S': [], 'X': []}, {'p': [], 'q': []},
      [{'lhs': 'S', 'nodes': [], 'edges': [{'label': 'X', 'att': []}], 'ext': []},
       {'lhs': 'X', 'nodes': [], 'edges': [{'label': 'p', 'att': []}, {'label': 'X', 'att': []}], 'ext': []},
       {'lhs': 'X', 'nodes': [], 'edges': [{'label': 'q', 'att': []}], 'ext': []}], True)
    # x = p x^2 + q          (scalar, quadratic)
    g('scalar_quadratic', {'S': [], 'X': []}, {'p': [], 'q': []},
      [{'lhs': 'S', 'nodes': [], 'edges': [{'label': 'X', 'att': []}], 'ext': []},
       {'lhs': 'X', 'nodes': [], 'edges': [{'label': 'p', 'att': []}, {'label': 'X', 'att': []}, {'label': 'X', 'att': []}], 'ext': []},
       {'lhs': 'X', 'nodes': [], 'edges': [{'label': 'q', 'att': []}], 'ext': []}], False)
    # pure self loop with and without base case
    g('self_loop_only', {'S': [], 'X': []}, {},
      [{'lhs': 'S', 'nodes': [], 'edges': [{'label': 'X', 'att': []}], 'ext': []},
       {'lhs': 'X', 'nodes': [], 'edges': [{'label': 'X', 'att': []}], 'ext': []}], True)
    g('self_loop_plus_base', {'S': [], 'X': []}, {'q': []},
      [{'lhs': 'S', 'nodes': [], 'edges': [{'label': 'X', 'att': []}], 'ext': []},
       {'lhs': 'X', 'nodes': [], 'edges': [{'label': 'X', 'att': []}], 'ext': []},
       {'lhs': 'X', 'nodes': [], 'edges': [{'label': 'q', 'att': []}], 'ext': []}], True)
    # mutual recursion X <-> Y (linear)
    g('two_cycle', {'S': [], 'X': [], 'Y': []}, {'a': [], 'b': [], 'c': [], 'd': []},
      [{'lhs': 'S', 'nodes': [], 'edges': [{'label': 'X', 'att': []}], 'ext': []},
       {'lhs': 'X', 'nodes': [], 'edges': [{'label': 'a', 'att': []}, {'label': 'Y', 'att': []}], 'ext': []},
       {'lhs': 'X', 'nodes': [], 'edges': [{'label': 'b', 'att': []}], 'ext': []},
       {'lhs': 'Y', 'nodes': [], 'edges': [{'label': 'c', 'att': []}, {'label': 'X', 'att': []}], 'ext': []},
       {'lhs': 'Y', 'nodes': [], 'edges': [{'label': 'd', 'att': []}], 'ext': []}], True)
    # HMM-shaped: X(v) -> t(v,w) X(w) | e(v), arity 1 over a size-2 domain (linear)
    g('hmm', {'S': [], 'X': ['T']}, {'b': ['T'], 't': ['T', 'T'], 'e': ['T']},
      [{'lhs': 'S', 'nodes': ['T'], 'edges': [{'label': 'b', 'att': [0]}, {'label': 'X', 'att': [0]}], 'ext': []},
       {'lhs': 'X', 'nodes': ['T', 'T'], 'edges': [{'label': 't', 'att': [0, 1]}, {'label': 'X', 'att': [1]}], 'ext': [0]},
       {'lhs': 'X', 'nodes': ['T'], 'edges': [{'label': 'e', 'att': [0]}], 'ext': [0]}], True)
    # two independent recursive SCCs multiplied
    g('two_sccs', {'S': [], 'X': [], 'Y': []}, {'p': [], 'q': [], 'r': [], 's': []},
      [{'lhs': 'S', 'nodes': [], 'edges': [{'label': 'X', 'att': []}, {'label': 'Y', 'att': []}], 'ext': []},
       {'lhs': 'X', 'nodes': [], 'edges': [{'label': 'p', 'att': []}, {'label': 'X', 'att': []}], 'ext': []},
       {'lhs': 'X', 'nodes': [], 'edges': [{'label': 'q', 'att': []}], 'ext': []},
       {'lhs': 'Y', 'nodes': [], 'edges': [{'label': 'r', 'att': []}, {'label': 'Y', 'att': []}], 'ext': []},
       {'lhs': 'Y', 'nodes': [], 'edges': [{'label': 's', 'att': []}], 'ext': []}], True)
    # recursive start symbol of arity 1 with an edgeless internal node
    g('start_recursive', {'S': ['T']}, {'t': ['T', 'T'], 'e': ['T']},
      [{'lhs': 'S', 'nodes': ['T', 'T'], 'edges': [{'label': 't', 'att': [0, 1]}, {'label': 'S', 'att': [1]}], 'ext': [0]},
       {'lhs': 'S', 'nodes': ['T', 'T'], 'edges': [{'label': 'e', 'att': [0]}], 'ext': [0]}], True)
    # non-linear mutual recursion: X -> a Y Y | b ; Y -> c X | d
    g('nonlinear_cycle', {'S': [], 'X': [], 'Y': []}, {'a': [], 'b': [], 'c': [], 'd': []},
      [{'lhs': 'S', 'nodes': [], 'edges': [{'label': 'X', 'att': []}], 'ext': []},
       {'lhs': 'X', 'nodes': [], 'edges': [{'label': 'a', 'att': []}, {'label': 'Y', 'att': []}, {'label': 'Y', 'att': []}], 'ext': []},
       {'lhs': 'X', 'nodes': [], 'edges': [{'label': 'b', 'att': []}], 'ext': []},
       {'lhs': 'Y', 'nodes': [], 'edges': [{'label': 'c', 'att': []}, {'label': 'X', 'att': []}], 'ext': []},
       {'lhs': 'Y', 'nodes': [], 'edges': [{'label': 'd', 'att': []}], 'ext': []}], False)
    return S
