"""Recursive grammar shapes for C02/C03/C04/C11/C12 (specs as in gen/grammars.py)."""


def family(usize=2):
    D = {'T': usize}
    S = []

    def g(name, nts, terms, rules, linear, start='S'):
        S.append({'name': name, 'linear': linear,
                  'spec': {'start': start, 'domains': D, 'nonterminals': nts, 'terminals': terms, 'rules': rules}})
    # x = p x + q            (scalar, linear)
    g('scalar_linear', {'S': [], 'X': []}, {'p': [], 'q': []},
      [{'lhs': 'S', 'nodes': [], 'edges': [{'label': 'X', 'att': []}], 'ext': []},
       {'lhs': 'X', 'nodes': [], 'edges': [{'label': 'p', 'att': []}, {'label': 'X', 'att': []}], 'ext': []},
       {'lhs': 'X', 'nodes': [], 'edges': [{'label': 'q', 'att': []}], 'ext': []}], True)
    # x = p x^2 + q          (scalar, quadratic)
    g('scalar_quadratic', {'S': [], 'X': []}, {'p': [], 'q': []},
      [{'lhs': 'S', 'nodes': [], 'edges': [{'label': 'X', 'att': []}], 'ext': []},
       {'lhs': 'X', 'nodes': [], 'edges': [{'label': 'p', 'att': []}, {'label': 'X', 'att': []}, {'label': 'X', 'att': []}], 'ext': []},
       {'lhs': 'X', 'nodes': [], 'edges': [{'label': 'q', 'att': []}], 'ext': []}], False)
    # pure self loop with and without base case
    g('self_loop_only', {'S': [], 'X': []}, {},
      [{'lhs': 'S', 'nodes': [], 'edges': [{'label': 'X', 'att': []}], 'ext': []},
       {'lhs': 'X', 'nodes': [], 'edges': [{'label': 'X', 'att': []}], 'ext': []}], True)
    g('self_loop_plus_base', {'S': [], 'X': []}, {'q': []},
      [{'lhs': 'S', 'nodes': [], 'edges': [{'label': 'X', 'att': []}], 'ext': []},
       {'lhs': 'X', 'nodes': [], 'edges': [{'label': 'X', 'att': []}], 'ext': []},
       {'lhs': 'X', 'nodes': [], 'edges': [{'label': 'q', 'att': []}], 'ext': []}], True)
    # mutual recursion X <-> Y (linear)
    g('two_cycle', {'S': [], 'X': [], 'Y': []}, {'a': [], 'b': [], 'c': [], 'd': []},
      [{'lhs': 'S', 'nodes': [], 'edges': [{'label': 'X', 'att': []}], 'ext': []},
       {'lhs': 'X', 'nodes': [], 'edges': [{'label': 'a', 'att': []}, {'label': 'Y', 'att': []}], 'ext': []},
       {'lhs': 'X', 'nodes': [], 'edges': [{'label': 'b', 'att': []}], 'ext': []},
       {'lhs': 'Y', 'nodes': [], 'edges': [{'label': 'c', 'att': []}, {'label': 'X', 'att': []}], 'ext': []},
       {'lhs': 'Y', 'nodes': [], 'edges': [{'label': 'd', 'att': []}], 'ext': []}], True)
    # HMM-shaped: X(v) -> t(v,w) X(w) | e(v), arity 1 over a size-2 domain (linear)
    g('hmm', {'S': [], 'X': ['T']}, {'b': ['T'], 't': ['T', 'T'], 'e': ['T']},
      [{'lhs': 'S', 'nodes': ['T'], 'edges': [{'label': 'b', 'att': [0]}, {'label': 'X', 'att': [0]}], 'ext': []},
       {'lhs': 'X', 'nodes': ['T', 'T'], 'edges': [{'label': 't', 'att': [0, 1]}, {'label': 'X', 'att': [1]}], 'ext': [0]},
       {'lhs': 'X', 'nodes': ['T'], 'edges': [{'label': 'e', 'att': [0]}], 'ext': [0]}], True)
    # two independent recursive SCCs multiplied
    g('two_sccs', {'S': [], 'X': [], 'Y': []}, {'p': [], 'q': [], 'r': [], 's': []},
      [{'lhs': 'S', 'nodes': [], 'edges': [{'label': 'X', 'att': []}, {'label': 'Y', 'att': []}], 'ext': []},
       {'lhs': 'X', 'nodes': [], 'edges': [{'label': 'p', 'att': []}, {'label': 'X', 'att': []}], 'ext': []},
       {'lhs': 'X', 'nodes': [], 'edges': [{'label': 'q', 'att': []}], 'ext': []},
       {'lhs': 'Y', 'nodes': [], 'edges': [{'label': 'r', 'att': []}, {'label': 'Y', 'att': []}], 'ext': []},
       {'lhs': 'Y', 'nodes': [], 'edges': [{'label': 's', 'att': []}], 'ext': []}], True)
    # recursive start symbol of arity 1 with an edgeless internal node
    g('start_recursive', {'S': ['T']}, {'t': ['T', 'T'], 'e': ['T']},
      [{'lhs': 'S', 'nodes': ['T', 'T'], 'edges': [{'label': 't', 'att': [0, 1]}, {'label': 'S', 'att': [1]}], 'ext': [0]},
       {'lhs': 'S', 'nodes': ['T', 'T'], 'edges': [{'label': 'e', 'att': [0]}], 'ext': [0]}], True)
    # non-linear mutual recursion: X -> a Y Y | b ; Y -> c X | d
    g('nonlinear_cycle', {'S': [], 'X': [], 'Y': []}, {'a': [], 'b': [], 'c': [], 'd': []},
      [{'lhs': 'S', 'nodes': [], 'edges': [{'label': 'X', 'att': []}], 'ext': []},
       {'lhs': 'X', 'nodes': [], 'edges': [{'label': 'a', 'att': []}, {'label': 'Y', 'att': []}, {'label': 'Y', 'att': []}], 'ext': []},
       {'lhs': 'X', 'nodes': [], 'edges': [{'label': 'b', 'att': []}], 'ext': []},
       {'lhs': 'Y', 'nodes': [], 'edges': [{'label': 'c', 'att': []}, {'label': 'X', 'att': []}], 'ext': []},
       {'lhs': 'Y', 'nodes': [], 'edges': [{'label': 'd', 'att': []}], 'ext': []}], False)
    # an SCC of three nonterminals with a chord: A -> p B | q C | e ; B -> r C ; C -> s A.  Block elimination creates fill-in
    # (B->C->A gives a B->A entry that was not there), in an order that depends on the insertion order of A's rules
    g('three_cycle_chord', {'S': [], 'A': [], 'B': [], 'C': []}, {'p': [], 'q': [], 'e': [], 'r': [], 's': []},
      [{'lhs': 'S', 'nodes': [], 'edges': [{'label': 'A', 'att': []}], 'ext': []},
       {'lhs': 'A', 'nodes': [], 'edges': [{'label': 'p', 'att': []}, {'label': 'B', 'att': []}], 'ext': []},
       {'lhs': 'A', 'nodes': [], 'edges': [{'label': 'q', 'att': []}, {'label': 'C', 'att': []}], 'ext': []},
       {'lhs': 'A', 'nodes': [], 'edges': [{'label': 'e', 'att': []}], 'ext': []},
       {'lhs': 'B', 'nodes': [], 'edges': [{'label': 'r', 'att': []}, {'label': 'C', 'att': []}], 'ext': []},
       {'lhs': 'C', 'nodes': [], 'edges': [{'label': 's', 'att': []}, {'label': 'A', 'att': []}], 'ext': []}], True)
    # four nonterminals, two chords: A -> B | C | e ; B -> C | D ; C -> D ; D -> A  (each with its own weight)
    g('four_cycle_chords', {'S': [], 'A': [], 'B': [], 'C': [], 'D': []}, {'p': [], 'q': [], 'e': [], 'r': [], 'u': [], 'v': [], 'w': []},
      [{'lhs': 'S', 'nodes': [], 'edges': [{'label': 'A', 'att': []}], 'ext': []},
       {'lhs': 'A', 'nodes': [], 'edges': [{'label': 'p', 'att': []}, {'label': 'B', 'att': []}], 'ext': []},
       {'lhs': 'A', 'nodes': [], 'edges': [{'label': 'q', 'att': []}, {'label': 'C', 'att': []}], 'ext': []},
       {'lhs': 'A', 'nodes': [], 'edges': [{'label': 'e', 'att': []}], 'ext': []},
       {'lhs': 'B', 'nodes': [], 'edges': [{'label': 'r', 'att': []}, {'label': 'C', 'att': []}], 'ext': []},
       {'lhs': 'B', 'nodes': [], 'edges': [{'label': 'u', 'att': []}, {'label': 'D', 'att': []}], 'ext': []},
       {'lhs': 'C', 'nodes': [], 'edges': [{'label': 'v', 'att': []}, {'label': 'D', 'att': []}], 'ext': []},
       {'lhs': 'D', 'nodes': [], 'edges': [{'label': 'w', 'att': []}, {'label': 'A', 'att': []}], 'ext': []}], True)
    return S


def linear_tensor_family():
    """linearly recursive grammars with vector- and matrix-valued nonterminals over a size-2 domain, for gradient checks with
    concrete recursion weights.  'concrete': {terminal: flat values} -- asymmetric dyadic matrices chosen so that (I - J)^-1 is dyadic
    (exactly representable), spectral radius < 1."""
    D = {'T': 2}
    S = []

    def g(name, nts, terms, rules, concrete, start='S'):
        S.append({'name': name, 'concrete': concrete, 'log_ok': name in ('hmm_vec', 'two_recursive_rules', 'dead_rule_first'),
                  'spec': {'start': start, 'domains': D, 'nonterminals': nts, 'terminals': terms, 'rules': rules}})
    UT = [0.5, 0.25, 0.0, 0.5]          # [[1/2, 1/4], [0, 1/2]]
    LT = [0.5, 0.0, 0.25, 0.75]         # [[1/2, 0], [1/4, 3/4]]
    # X(v1,v2) -> a(v1,v2) | X(v1,v3) b(v3,v2);   S -> X(v1,v2) c(v1,v2)
    g('matrix_right', {'S': [], 'X': ['T', 'T']}, {'a': ['T', 'T'], 'b': ['T', 'T'], 'c': ['T', 'T']},
      [{'lhs': 'S', 'nodes': ['T', 'T'], 'edges': [{'label': 'X', 'att': [0, 1]}, {'label': 'c', 'att': [0, 1]}], 'ext': []},
       {'lhs': 'X', 'nodes': ['T', 'T'], 'edges': [{'label': 'a', 'att': [0, 1]}], 'ext': [0, 1]},
       {'lhs': 'X', 'nodes': ['T', 'T', 'T'], 'edges': [{'label': 'X', 'att': [0, 2]}, {'label': 'b', 'att': [2, 1]}], 'ext': [0, 1]}], {'b': UT})
    # X(v1,v2) -> a(v1,v2) | b(v1,v3) X(v3,v2)
    g('matrix_left', {'S': [], 'X': ['T', 'T']}, {'a': ['T', 'T'], 'b': ['T', 'T'], 'c': ['T', 'T']},
      [{'lhs': 'S', 'nodes': ['T', 'T'], 'edges': [{'label': 'X', 'att': [0, 1]}, {'label': 'c', 'att': [0, 1]}], 'ext': []},
       {'lhs': 'X', 'nodes': ['T', 'T'], 'edges': [{'label': 'a', 'att': [0, 1]}], 'ext': [0, 1]},
       {'lhs': 'X', 'nodes': ['T', 'T', 'T'], 'edges': [{'label': 'b', 'att': [0, 2]}, {'label': 'X', 'att': [2, 1]}], 'ext': [0, 1]}], {'b': LT})
    # the matrix-valued nonterminal is the start symbol (cotangent with 4 cells), externals listed in swapped order in the recursive rule
    g('matrix_start', {'X': ['T', 'T']}, {'a': ['T', 'T'], 'b': ['T', 'T']},
      [{'lhs': 'X', 'nodes': ['T', 'T'], 'edges': [{'label': 'a', 'att': [0, 1]}], 'ext': [0, 1]},
       {'lhs': 'X', 'nodes': ['T', 'T', 'T'], 'edges': [{'label': 'b', 'att': [1, 2]}, {'label': 'X', 'att': [0, 2]}], 'ext': [0, 1]}], {'b': UT}, start='X')
    # HMM-shaped vector recursion
    g('hmm_vec', {'S': [], 'X': ['T']}, {'s': ['T'], 't': ['T', 'T'], 'e': ['T']},
      [{'lhs': 'S', 'nodes': ['T'], 'edges': [{'label': 's', 'att': [0]}, {'label': 'X', 'att': [0]}], 'ext': []},
       {'lhs': 'X', 'nodes': ['T', 'T'], 'edges': [{'label': 't', 'att': [0, 1]}, {'label': 'X', 'att': [1]}], 'ext': [0]},
       {'lhs': 'X', 'nodes': ['T'], 'edges': [{'label': 'e', 'att': [0]}], 'ext': [0]}], {'t': UT})
    # two rules feeding the same Jacobian block:  X -> l X | r X | e
    g('two_recursive_rules', {'S': [], 'X': ['T']}, {'s': ['T'], 'l': ['T', 'T'], 'r': ['T', 'T'], 'e': ['T']},
      [{'lhs': 'S', 'nodes': ['T'], 'edges': [{'label': 's', 'att': [0]}, {'label': 'X', 'att': [0]}], 'ext': []},
       {'lhs': 'X', 'nodes': ['T', 'T'], 'edges': [{'label': 'l', 'att': [0, 1]}, {'label': 'X', 'att': [1]}], 'ext': [0]},
       {'lhs': 'X', 'nodes': ['T', 'T'], 'edges': [{'label': 'r', 'att': [0, 1]}, {'label': 'X', 'att': [1]}], 'ext': [0]},
       {'lhs': 'X', 'nodes': ['T'], 'edges': [{'label': 'e', 'att': [0]}], 'ext': [0]}], {'l': [0.25, 0.25, 0.0, 0.25], 'r': [0.25, 0.0, 0.0, 0.25]})
    # mutual recursion of two vector-valued nonterminals
    g('vec_two_cycle', {'S': [], 'X': ['T'], 'Y': ['T']}, {'s': ['T'], 't': ['T', 'T'], 'u': ['T', 'T'], 'e': ['T'], 'f': ['T']},
      [{'lhs': 'S', 'nodes': ['T'], 'edges': [{'label': 's', 'att': [0]}, {'label': 'X', 'att': [0]}], 'ext': []},
       {'lhs': 'X', 'nodes': ['T', 'T'], 'edges': [{'label': 't', 'att': [0, 1]}, {'label': 'Y', 'att': [1]}], 'ext': [0]},
       {'lhs': 'X', 'nodes': ['T'], 'edges': [{'label': 'e', 'att': [0]}], 'ext': [0]},
       {'lhs': 'Y', 'nodes': ['T', 'T'], 'edges': [{'label': 'u', 'att': [0, 1]}, {'label': 'X', 'att': [1]}], 'ext': [0]},
       {'lhs': 'Y', 'nodes': ['T'], 'edges': [{'label': 'f', 'att': [0]}], 'ext': [0]}], {'t': [0.5, 0.25, 0.0, 0.75], 'u': [1.0, 0.5, 0.0, 1.0]})
    # a dead rule first: Y never terminates, so X -> Y e contributes nothing;  S -> X d
    g('dead_rule_first', {'S': [], 'X': ['T'], 'Y': ['T']}, {'d': ['T'], 'e': ['T'], 'a': ['T'], 'b': ['T', 'T'], 'c': ['T']},
      [{'lhs': 'S', 'nodes': ['T'], 'edges': [{'label': 'X', 'att': [0]}, {'label': 'd', 'att': [0]}], 'ext': []},
       {'lhs': 'X', 'nodes': ['T'], 'edges': [{'label': 'Y', 'att': [0]}, {'label': 'e', 'att': [0]}], 'ext': [0]},
       {'lhs': 'X', 'nodes': ['T'], 'edges': [{'label': 'a', 'att': [0]}], 'ext': [0]},
       {'lhs': 'X', 'nodes': ['T', 'T'], 'edges': [{'label': 'b', 'att': [0, 1]}, {'label': 'X', 'att': [1]}], 'ext': [0]},
       {'lhs': 'Y', 'nodes': ['T'], 'edges': [{'label': 'Y', 'att': [0]}, {'label': 'c', 'att': [0]}], 'ext': [0]}], {'b': UT, 'c': [0.5, 0.75], 'e': [0.5, 1.0]})
    # scalar SCC of three nonterminals with a chord (fill-in during block elimination), both insertion orders of A's recursive rules
    for name, first in (('three_cycle_chord_BC', ('B', 'C')), ('three_cycle_chord_CB', ('C', 'B'))):
        ar = {'B': {'lhs': 'A', 'nodes': [], 'edges': [{'label': 'p', 'att': []}, {'label': 'B', 'att': []}], 'ext': []},
              'C': {'lhs': 'A', 'nodes': [], 'edges': [{'label': 'q', 'att': []}, {'label': 'C', 'att': []}], 'ext': []}}
        g(name, {'S': [], 'A': [], 'B': [], 'C': []}, {'p': [], 'q': [], 'e': [], 'r': [], 's': [], 'd': []},
          [{'lhs': 'S', 'nodes': [], 'edges': [{'label': 'A', 'att': []}, {'label': 'd', 'att': []}], 'ext': []},
           ar[first[0]], ar[first[1]],
           {'lhs': 'A', 'nodes': [], 'edges': [{'label': 'e', 'att': []}], 'ext': []},
           {'lhs': 'B', 'nodes': [], 'edges': [{'label': 'r', 'att': []}, {'label': 'C', 'att': []}], 'ext': []},
           {'lhs': 'C', 'nodes': [], 'edges': [{'label': 's', 'att': []}, {'label': 'A', 'att': []}], 'ext': []}],
          {'p': [1.0], 'q': [1.0], 'r': [0.5], 's': [0.5]})
    return S


def dead_scc_family():
    """scalar SCC {X, Y} in which Y is structurally unproductive (every rule of Y contains Y), so that the rule X -> Y e is dead;
    the dead rule is placed first / in the middle / last among X's rules"""
    D = {'T': 2}
    out = []
    live = [{'lhs': 'X', 'nodes': [], 'edges': [{'label': 'a', 'att': []}], 'ext': []},
            {'lhs': 'X', 'nodes': [], 'edges': [{'label': 'b', 'att': []}, {'label': 'X', 'att': []}], 'ext': []}]
    deadr = {'lhs': 'X', 'nodes': [], 'edges': [{'label': 'Y', 'att': []}, {'label': 'e', 'att': []}], 'ext': []}
    for pos, name in ((0, 'dead_first'), (1, 'dead_middle'), (2, 'dead_last')):
        xr = list(live)
        xr.insert(pos, deadr)
        rules = [{'lhs': 'S', 'nodes': [], 'edges': [{'label': 'X', 'att': []}, {'label': 'd', 'att': []}], 'ext': []}] + xr + \
                [{'lhs': 'Y', 'nodes': [], 'edges': [{'label': 'X', 'att': []}, {'label': 'Y', 'att': []}, {'label': 'c', 'att': []}], 'ext': []}]
        out.append({'name': name, 'linear': False, 'scc': ['X', 'Y'], 'dead': ['Y'],
                    'spec': {'start': 'S', 'domains': D, 'nonterminals': {'S': [], 'X': [], 'Y': []},
                             'terminals': {'a': [], 'b': [], 'c': [], 'd': [], 'e': []}, 'rules': rules}})
    return out


def patterned_family(size=4):
    """recursive grammars whose base-case factor is given as a PatternedTensor with a sparsity pattern (the iterate's pattern grows
    from one iteration to the next).  'patterned': {terminal: 'diag'} -- weights on the diagonal, semiring zero elsewhere"""
    D = {'T': size}       # four values: paths of length 3 matter, so the iteration has not converged yet when the pattern stops growing
    out = []
    out.append({'name': 'closure_diag_base', 'linear': True, 'patterned': {'eq': 'diag'},
                'spec': {'start': 'S', 'domains': D, 'nonterminals': {'S': [], 'X': ['T', 'T']},
                         'terminals': {'i': ['T'], 'f': ['T'], 'eq': ['T', 'T'], 't': ['T', 'T']},
                         'rules': [{'lhs': 'S', 'nodes': ['T', 'T'], 'edges': [{'label': 'i', 'att': [0]}, {'label': 'X', 'att': [0, 1]}, {'label': 'f', 'att': [1]}], 'ext': []},
                                   {'lhs': 'X', 'nodes': ['T', 'T'], 'edges': [{'label': 'eq', 'att': [0, 1]}], 'ext': [0, 1]},
                                   {'lhs': 'X', 'nodes': ['T', 'T', 'T'], 'edges': [{'label': 't', 'att': [0, 2]}, {'label': 'X', 'att': [2, 1]}], 'ext': [0, 1]}]}})
    out.append({'name': 'vector_diag_step', 'linear': True, 'patterned': {'t': 'diag'},
                'spec': {'start': 'S', 'domains': D, 'nonterminals': {'S': [], 'X': ['T']},
                         'terminals': {'s': ['T'], 't': ['T', 'T'], 'u': ['T', 'T'], 'e': ['T']},
                         'rules': [{'lhs': 'S', 'nodes': ['T'], 'edges': [{'label': 's', 'att': [0]}, {'label': 'X', 'att': [0]}], 'ext': []},
                                   {'lhs': 'X', 'nodes': ['T', 'T'], 'edges': [{'label': 't', 'att': [0, 1]}, {'label': 'X', 'att': [1]}], 'ext': [0]},
                                   {'lhs': 'X', 'nodes': ['T', 'T'], 'edges': [{'label': 'u', 'att': [0, 1]}, {'label': 'X', 'att': [1]}], 'ext': [0]},
                                   {'lhs': 'X', 'nodes': ['T'], 'edges': [{'label': 'e', 'att': [0]}], 'ext': [0]}]}})
    return out
