"""Bounded grammar families (DESIGN Appendix B.1) as JSON-able specs.

spec = {'start': name, 'domains': {label: size}, 'nonterminals': {name: [node labels]},
        'terminals': {name: [node labels]},
        'rules': [{'lhs': name, 'nodes': [label,...], 'edges': [{'label': name, 'att': [node idx,...]}], 'ext': [node idx,...]}]}
"""
import itertools
import json
import os
import random


def build_fgg(spec, fggs, weights=None, explicit_ids=False):
    """construct the FGG through the public API; weights: {terminal: tensor-like} (optional)"""
    g = fggs.FGG(fggs.EdgeLabel(spec['start'], [fggs.NodeLabel(l) for l in spec['nonterminals'][spec['start']]], is_nonterminal=True))
    labels = {}
    for name, typ in spec['nonterminals'].items():
        labels[name] = fggs.EdgeLabel(name, [fggs.NodeLabel(l) for l in typ], is_nonterminal=True)
    for name, typ in spec['terminals'].items():
        labels[name] = fggs.EdgeLabel(name, [fggs.NodeLabel(l) for l in typ], is_terminal=True)
    for el in labels.values():
        g.add_edge_label(el)
    for ri, r in enumerate(spec['rules']):
        rhs = fggs.Graph()
        nodes = []
        for ni, l in enumerate(r['nodes']):
            v = fggs.Node(fggs.NodeLabel(l), id=(f'r{ri}v{ni}' if explicit_ids else None))
            rhs.add_node(v)
            nodes.append(v)
        for ei, e in enumerate(r['edges']):
            rhs.add_edge(fggs.Edge(labels[e['label']], [nodes[i] for i in e['att']], id=(e.get('id', f'r{ri}e{ei}') if explicit_ids else None)))
        rhs.ext = [nodes[i] for i in r['ext']]
        g.add_rule(fggs.HRGRule(labels[r['lhs']], rhs))
    for l, n in spec['domains'].items():
        g.add_domain(fggs.NodeLabel(l), fggs.FiniteDomain(list(range(n))))
    if weights is not None:
        for name in spec['terminals']:
            g.add_factor(labels[name], fggs.FiniteFactor([g.domains[l] for l in spec['terminals'][name]], weights[name]))
    return g


def weight_shapes(spec):
    return {name: tuple(spec['domains'][l] for l in typ) for name, typ in spec['terminals'].items()}


def dependency(spec):
    dep = {n: set() for n in spec['nonterminals']}
    for r in spec['rules']:
        for e in r['edges']:
            if e['label'] in spec['nonterminals']:
                dep[r['lhs']].add(e['label'])
    return dep


def is_recursive(spec):
    dep = dependency(spec)
    # reachability closure
    reach = {n: set(d) for n, d in dep.items()}
    changed = True
    while changed:
        changed = False
        for n in reach:
            new = set()
            for m in reach[n]:
                new |= reach[m]
            if not new <= reach[n]:
                reach[n] |= new
                changed = True
    return any(n in reach[n] for n in reach)


def features(spec):
    f = {'recursive': is_recursive(spec), 'start_arity': len(spec['nonterminals'][spec['start']]),
         'edgeless_internal': False, 'edgeless_external': False, 'repeated_attachment': False, 'nullary_factor': False,
         'duplicate_external': False, 'max_edges_in_rule': 0, 'nt_without_rules': False, 'shared_factor': False}
    used = {}
    for r in spec['rules']:
        att = set(i for e in r['edges'] for i in e['att'])
        for i in range(len(r['nodes'])):
            if i not in att:
                if i in r['ext']:
                    f['edgeless_external'] = True
                else:
                    f['edgeless_internal'] = True
        for e in r['edges']:
            if len(set(e['att'])) != len(e['att']):
                f['repeated_attachment'] = True
            if not e['att'] and e['label'] in spec['terminals']:
                f['nullary_factor'] = True
            if e['label'] in spec['terminals']:
                used[e['label']] = used.get(e['label'], 0) + 1
        if len(set(r['ext'])) != len(r['ext']):
            f['duplicate_external'] = True
        f['max_edges_in_rule'] = max(f['max_edges_in_rule'], len(r['edges']))
    lhss = {r['lhs'] for r in spec['rules']}
    f['nt_without_rules'] = any(n not in lhss for n in spec['nonterminals'])
    f['shared_factor'] = any(c > 1 for c in used.values())
    return f


# --------------------------------------------------------------------------

def _rhs_shapes(labels, max_nodes, max_edges, ext_lens, nts=None):
    """right-hand-side shapes: (nodes, edges as attachment tuples, ext); edge labels assigned later"""
    out = []
    for n in range(max_nodes + 1):
        for nodes in itertools.product(labels, repeat=n):
            if list(nodes) != sorted(nodes):     # node order is immaterial up to renaming
                continue
            atts = [()] + [(i,) for i in range(n)] + [(i, j) for i in range(n) for j in range(n)]
            for k in range(max_edges + 1):
                for es in itertools.combinations_with_replacement(atts, k):
                    for el in ext_lens:
                        for ext in itertools.product(range(n), repeat=el):
                            out.append((list(nodes), [list(a) for a in es], list(ext)))
    return out


def single_rule_family(usize=3, max_nodes=2, max_edges=2):
    """family A: S -> rhs with terminal edges only"""
    specs = []
    for nodes, edges, ext in _rhs_shapes(['T', 'U'], max_nodes, max_edges, (0, 1, 2)):
        types = [tuple(nodes[i] for i in a) for a in edges]
        # terminal naming: edges of the same type either share a factor or not
        namings = [[f't{k}' for k in range(len(edges))]]
        if len(edges) == 2 and types[0] == types[1]:
            namings.append(['t0', 't0'])
        for names in namings:
            terms = {}
            for nme, ty in zip(names, types):
                terms[nme] = list(ty)
            spec = {'start': 'S', 'domains': {'T': 2, 'U': usize}, 'nonterminals': {'S': [nodes[i] for i in ext]},
                    'terminals': terms,
                    'rules': [{'lhs': 'S', 'nodes': nodes, 'edges': [{'label': nme, 'att': a} for nme, a in zip(names, edges)], 'ext': ext}]}
            specs.append(spec)
    return specs


def two_level_family(rng, count, usize=3):
    """family B: S uses a nonterminal X (arity 0..2, possibly twice), X has 0..2 rules"""
    A = single_rule_family(usize, 2, 2)
    by_type = {}
    for s in A:
        by_type.setdefault(tuple(s['nonterminals']['S']), []).append(s)
    specs = []
    tries = 0
    while len(specs) < count and tries < count * 20:
        tries += 1
        top = rng.choice(A)
        r = json.loads(json.dumps(top['rules'][0]))
        xtype = rng.choice(list(by_type))
        # attach X to nodes of matching labels, adding nodes if needed
        att = []
        for l in xtype:
            cands = [i for i, nl in enumerate(r['nodes']) if nl == l]
            if cands and rng.random() < 0.8:
                att.append(rng.choice(cands))
            else:
                r['nodes'].append(l)
                att.append(len(r['nodes']) - 1)
        if len(r['nodes']) > 3:
            continue
        r['edges'].insert(rng.randrange(len(r['edges']) + 1), {'label': 'X', 'att': att})
        if rng.random() < 0.25:
            r['edges'].append({'label': 'X', 'att': att if rng.random() < 0.5 else list(reversed(att)) if xtype == tuple(reversed(xtype)) else att})
        nx = rng.choice([0, 1, 1, 2])
        xrules = []
        terms = dict(top['terminals'])
        for k in range(nx):
            sub = rng.choice(by_type[xtype])
            ren = {t: (t if rng.random() < 0.3 and t in terms and terms[t] == sub['terminals'][t] else f'x{k}{t}') for t in sub['terminals']}
            for t, ty in sub['terminals'].items():
                terms[ren[t]] = ty
            sr = json.loads(json.dumps(sub['rules'][0]))
            sr['lhs'] = 'X'
            for e in sr['edges']:
                e['label'] = ren[e['label']]
            xrules.append(sr)
        spec = {'start': 'S', 'domains': {'T': 2, 'U': usize},
                'nonterminals': {'S': top['nonterminals']['S'], 'X': list(xtype)},
                'terminals': terms, 'rules': [dict(r, lhs='S')] + xrules}
        if rng.random() < 0.2:
            # a second S rule: terminal-only alternative of the same type
            alts = by_type.get(tuple(top['nonterminals']['S']), [])
            if alts:
                alt = rng.choice(alts)
                ar = json.loads(json.dumps(alt['rules'][0]))
                for e in ar['edges']:
                    e['label'] = 'alt' + e['label']
                for t, ty in alt['terminals'].items():
                    spec['terminals']['alt' + t] = ty
                spec['rules'].append(ar)
        if rng.random() < 0.15:
            spec['nonterminals']['Y'] = ['T']        # unreachable / unproductive extra nonterminal
            if rng.random() < 0.5:
                spec['terminals']['yt'] = ['T']
                spec['rules'].append({'lhs': 'Y', 'nodes': ['T'], 'edges': [{'label': 'yt', 'att': [0]}], 'ext': [0]})
        specs.append(spec)
    return specs


def feature_set(usize=3):
    """hand-written grammars, one or more per shape the property names"""
    D = {'T': 2, 'U': usize}
    S = []

    def g(nts, terms, rules, start='S'):
        S.append({'start': start, 'domains': D, 'nonterminals': nts, 'terminals': terms, 'rules': rules})
    # edgeless internal node next to a factor
    g({'S': []}, {'a': ['T']}, [{'lhs': 'S', 'nodes': ['T', 'U'], 'edges': [{'label': 'a', 'att': [0]}], 'ext': []}])
    # only edgeless nodes
    g({'S': []}, {}, [{'lhs': 'S', 'nodes': ['T', 'U'], 'edges': [], 'ext': []}])
    # edgeless external node
    g({'S': ['T', 'U']}, {'a': ['T']}, [{'lhs': 'S', 'nodes': ['T', 'U'], 'edges': [{'label': 'a', 'att': [0]}], 'ext': [0, 1]}])
    g({'S': ['U']}, {}, [{'lhs': 'S', 'nodes': ['U'], 'edges': [], 'ext': [0]}])
    # f(v,v)
    g({'S': []}, {'f': ['T', 'T']}, [{'lhs': 'S', 'nodes': ['T'], 'edges': [{'label': 'f', 'att': [0, 0]}], 'ext': []}])
    g({'S': ['T']}, {'f': ['T', 'T']}, [{'lhs': 'S', 'nodes': ['T'], 'edges': [{'label': 'f', 'att': [0, 0]}], 'ext': [0]}])
    # nullary factor
    g({'S': []}, {'c': [], 'a': ['T']}, [{'lhs': 'S', 'nodes': ['T'], 'edges': [{'label': 'c', 'att': []}, {'label': 'a', 'att': [0]}], 'ext': []}])
    # nonterminal without rules (value zero), used and unused
    g({'S': [], 'X': ['T']}, {'a': ['T']}, [{'lhs': 'S', 'nodes': ['T'], 'edges': [{'label': 'a', 'att': [0]}, {'label': 'X', 'att': [0]}], 'ext': []}])
    g({'S': [], 'X': ['T']}, {'a': ['T']}, [{'lhs': 'S', 'nodes': ['T'], 'edges': [{'label': 'a', 'att': [0]}], 'ext': []},
                                            {'lhs': 'S', 'nodes': ['T'], 'edges': [{'label': 'X', 'att': [0]}], 'ext': []}])
    # unreachable nonterminal with rules
    g({'S': [], 'X': ['T']}, {'a': ['T'], 'b': ['T']}, [{'lhs': 'S', 'nodes': ['T'], 'edges': [{'label': 'a', 'att': [0]}], 'ext': []},
                                                        {'lhs': 'X', 'nodes': ['T'], 'edges': [{'label': 'b', 'att': [0]}], 'ext': [0]}])
    # start of arity 1 and 2, duplicate external node
    g({'S': ['T', 'T']}, {'a': ['T']}, [{'lhs': 'S', 'nodes': ['T'], 'edges': [{'label': 'a', 'att': [0]}], 'ext': [0, 0]}])
    g({'S': ['T', 'U']}, {'f': ['T', 'U']}, [{'lhs': 'S', 'nodes': ['T', 'U'], 'edges': [{'label': 'f', 'att': [0, 1]}], 'ext': [0, 1]}])
    g({'S': ['U', 'T']}, {'f': ['T', 'U']}, [{'lhs': 'S', 'nodes': ['T', 'U'], 'edges': [{'label': 'f', 'att': [0, 1]}], 'ext': [1, 0]}])
    # chain S -> X -> Y, shared factor between rules, X used twice
    g({'S': [], 'X': ['T'], 'Y': ['T']}, {'a': ['T'], 't': ['T', 'T']},
      [{'lhs': 'S', 'nodes': ['T'], 'edges': [{'label': 'a', 'att': [0]}, {'label': 'X', 'att': [0]}], 'ext': []},
       {'lhs': 'X', 'nodes': ['T', 'T'], 'edges': [{'label': 't', 'att': [0, 1]}, {'label': 'Y', 'att': [1]}], 'ext': [0]},
       {'lhs': 'Y', 'nodes': ['T', 'T'], 'edges': [{'label': 't', 'att': [0, 1]}, {'label': 'a', 'att': [1]}], 'ext': [0]}])
    g({'S': [], 'X': ['T']}, {'a': ['T'], 't': ['T', 'T']},
      [{'lhs': 'S', 'nodes': ['T', 'T'], 'edges': [{'label': 'X', 'att': [0]}, {'label': 't', 'att': [0, 1]}, {'label': 'X', 'att': [1]}], 'ext': []},
       {'lhs': 'X', 'nodes': ['T'], 'edges': [{'label': 'a', 'att': [0]}], 'ext': [0]},
       {'lhs': 'X', 'nodes': ['T', 'U'], 'edges': [], 'ext': [0]}])
    # nonterminal attached twice to one node; nonterminal of arity 2 with duplicate external in its rule
    g({'S': [], 'X': ['T', 'T']}, {'f': ['T', 'T']},
      [{'lhs': 'S', 'nodes': ['T'], 'edges': [{'label': 'X', 'att': [0, 0]}], 'ext': []},
       {'lhs': 'X', 'nodes': ['T', 'T'], 'edges': [{'label': 'f', 'att': [0, 1]}], 'ext': [0, 1]},
       {'lhs': 'X', 'nodes': ['T'], 'edges': [], 'ext': [0, 0]}])
    # three-edge rules with nodes private to a prefix of the edge list, nonterminal in the middle
    g({'S': [], 'X': ['T']}, {'a': ['T'], 'b': ['T', 'T'], 'c': ['T', 'U']},
      [{'lhs': 'S', 'nodes': ['T', 'T', 'U'], 'edges': [{'label': 'a', 'att': [0]}, {'label': 'b', 'att': [0, 1]}, {'label': 'c', 'att': [1, 2]}], 'ext': []},
       {'lhs': 'X', 'nodes': ['T'], 'edges': [{'label': 'a', 'att': [0]}], 'ext': [0]}])
    g({'S': ['T'], 'X': ['T']}, {'a': ['T'], 'b': ['T', 'T']},
      [{'lhs': 'S', 'nodes': ['T', 'T'], 'edges': [{'label': 'a', 'att': [0]}, {'label': 'X', 'att': [1]}, {'label': 'b', 'att': [0, 1]}], 'ext': [0]},
       {'lhs': 'X', 'nodes': ['T', 'T'], 'edges': [{'label': 'b', 'att': [0, 1]}], 'ext': [0]}])
    g({'S': []}, {'a': ['T'], 'b': ['T'], 'c': ['T']},
      [{'lhs': 'S', 'nodes': ['T', 'T', 'U'], 'edges': [{'label': 'a', 'att': [0]}, {'label': 'b', 'att': [0]}, {'label': 'c', 'att': [0]}], 'ext': []}])
    # internal nodes whose order of first appearance depends on the order in which edges are visited
    g({'S': [], 'X': ['U']}, {'f': ['T', 'T'], 'g': ['T', 'U'], 'h': ['U']},
      [{'lhs': 'S', 'nodes': ['T', 'T', 'U'], 'edges': [{'label': 'f', 'att': [0, 1]}, {'label': 'X', 'att': [2]}, {'label': 'g', 'att': [1, 2]}], 'ext': []},
       {'lhs': 'X', 'nodes': ['U'], 'edges': [{'label': 'h', 'att': [0]}], 'ext': [0]}])
    g({'S': ['T'], 'X': ['T', 'U']}, {'f': ['T', 'U'], 'g': ['U'], 'h': ['T', 'U']},
      [{'lhs': 'S', 'nodes': ['T', 'U', 'T'], 'edges': [{'label': 'g', 'att': [1]}, {'label': 'X', 'att': [2, 1]}, {'label': 'f', 'att': [0, 1]}], 'ext': [0]},
       {'lhs': 'X', 'nodes': ['T', 'U'], 'edges': [{'label': 'h', 'att': [0, 1]}], 'ext': [0, 1]}])
    g({'S': [], 'X': ['T'], 'Y': ['U']}, {'f': ['T', 'U'], 'a': ['T'], 'b': ['U']},
      [{'lhs': 'S', 'nodes': ['U', 'T'], 'edges': [{'label': 'Y', 'att': [0]}, {'label': 'f', 'att': [1, 0]}, {'label': 'X', 'att': [1]}], 'ext': []},
       {'lhs': 'X', 'nodes': ['T'], 'edges': [{'label': 'a', 'att': [0]}], 'ext': [0]},
       {'lhs': 'Y', 'nodes': ['U'], 'edges': [{'label': 'b', 'att': [0]}], 'ext': [0]}])
    return S


def from_repo_json(path):
    """convert one of the repository's JSON grammars to a spec (finite/range domains only)"""
    j = json.load(open(path))
    gr, it = j['grammar'], j['interpretation']
    doms = {}
    for l, d in it['domains'].items():
        doms[l] = len(d['values']) if d['class'] == 'finite' else d['size']
    spec = {'start': gr['start'], 'domains': doms, 'nonterminals': {n: d['type'] for n, d in gr['nonterminals'].items()},
            'terminals': {n: d['type'] for n, d in gr['terminals'].items()}, 'rules': []}
    for r in gr['rules']:
        spec['rules'].append({'lhs': r['lhs'], 'nodes': [v['label'] for v in r['rhs']['nodes']],
                              'edges': [{'label': e['label'], 'att': e['attachments']} for e in r['rhs']['edges']],
                              'ext': r['rhs'].get('externals', [])})
    weights = {n: f['weights'] for n, f in it['factors'].items() if f['function'] == 'finite'}
    return spec, weights


def nonrecursive_family(tier, seed):
    rng = random.Random(seed)
    A3 = single_rule_family(3)
    A1 = single_rule_family(1)
    fs = feature_set(3) + feature_set(1)
    if tier == 'quick':
        sel = rng.sample(A3, 260) + rng.sample(A1, 60) + two_level_family(rng, 160, 3) + two_level_family(rng, 30, 1)
    else:
        sel = A3 + rng.sample(A1, 400) + two_level_family(rng, 1500, 3) + two_level_family(rng, 200, 1)
    out = []
    seen = set()
    for s in fs + sel:
        if is_recursive(s):
            continue
        k = json.dumps(s, sort_keys=True)
        if k not in seen:
            seen.add(k)
            out.append(s)
    return out
