"""Grammars with larger right-hand sides for factorization (C05): single-rule FGGs S -> rhs plus
two-rule grammars where the big rule uses a nonterminal X with a small rule."""
import itertools
import json
import random


def _spec(nodes, edges, ext, with_x=None):
    terms = {}
    es = []
    for k, (att, nt) in enumerate(edges):
        if nt:
            es.append({'label': 'X', 'att': att})
        else:
            nme = f't{k}'
            terms[nme] = [nodes[i] for i in att]
            es.append({'label': nme, 'att': att})
    nts = {'S': [nodes[i] for i in ext]}
    rules = [{'lhs': 'S', 'nodes': nodes, 'edges': es, 'ext': ext}]
    if with_x is not None:
        nts['X'] = with_x
        terms['xw'] = with_x
        rules.append({'lhs': 'X', 'nodes': list(with_x), 'edges': [{'label': 'xw', 'att': list(range(len(with_x)))}], 'ext': list(range(len(with_x)))})
    return {'start': 'S', 'domains': {'T': 2, 'U': 3}, 'nonterminals': nts, 'terminals': terms, 'rules': rules}


def handwritten():
    T = 'T'
    out = []
    # chain, star, 4-cycle, triangle + pendant, two components, isolated nodes, nullary edge, repeated attachment
    out.append(_spec([T] * 4, [([0, 1], 0), ([1, 2], 0), ([2, 3], 0)], []))
    out.append(_spec([T] * 4, [([0, 1], 0), ([1, 2], 0), ([2, 3], 0)], [0, 3]))
    out.append(_spec([T] * 4, [([0, 1], 0), ([0, 2], 0), ([0, 3], 0)], [1]))
    out.append(_spec([T] * 4, [([0, 1], 0), ([1, 2], 0), ([2, 3], 0), ([3, 0], 0)], []))
    out.append(_spec([T] * 4, [([0, 1], 0), ([1, 2], 0), ([2, 0], 0), ([2, 3], 0)], [3]))
    out.append(_spec([T] * 4, [([0, 1], 0), ([2, 3], 0)], []))
    out.append(_spec([T] * 4, [([0, 1], 0), ([2, 3], 0)], [0, 2]))
    out.append(_spec([T] * 3, [([0, 1], 0)], []))                     # isolated internal node 2
    out.append(_spec([T] * 3, [([0, 1], 0)], [2]))                    # isolated external node
    out.append(_spec([T] * 3, [], []))                                # only isolated nodes
    out.append(_spec([T] * 2, [([], 0), ([0, 1], 0)], []))            # nullary edge
    out.append(_spec([T] * 3, [([0, 0], 0), ([0, 1], 0), ([1, 2], 0)], [2]))
    out.append(_spec([T, 'U', T], [([0, 1], 0), ([1, 2], 0), ([2], 0)], [0]))
    out.append(_spec([T] * 4, [([0, 1], 0), ([1, 2], 1), ([2, 3], 0)], [0], with_x=[T, T]))
    out.append(_spec([T] * 4, [([0], 1), ([0, 1], 0), ([1, 2], 0), ([2, 3], 0), ([3], 1)], [], with_x=[T]))
    out.append(_spec([T] * 5, [([0, 1], 0), ([1, 2], 0), ([2, 3], 0), ([3, 4], 0)], [0, 4]))
    out.append(_spec([T] * 4, [([0, 1, 2], 0), ([2, 3], 0)], [0]))    # arity-3 factor
    out.append(_spec([T] * 3, [([0, 1], 0), ([1, 2], 0)], [0, 0]))    # duplicate external
    return out


def family(tier, seed):
    rng = random.Random(seed)
    out = handwritten()
    n = 60 if tier == 'quick' else 400
    tries = 0
    while len(out) < n + 18 and tries < 20 * n:
        tries += 1
        k = rng.choice([3, 3, 4, 4, 5])
        nodes = [rng.choice(['T', 'T', 'T', 'U']) for _ in range(k)]
        ne = rng.randint(1, min(5, k + 1))
        edges = []
        usex = None
        for _ in range(ne):
            ar = rng.choice([0, 1, 2, 2, 2, 3])
            att = [rng.randrange(k) for _ in range(ar)]
            nt = 0
            if rng.random() < 0.2 and ar in (1, 2):
                typ = [nodes[i] for i in att]
                if usex is None or usex == typ:
                    usex = typ
                    nt = 1
            edges.append((att, nt))
        ext = [rng.randrange(k) for _ in range(rng.choice([0, 0, 1, 1, 2]))]
        if len(set(ext)) != len(ext) and rng.random() < 0.8:
            continue
        spec = _spec(nodes, edges, ext, with_x=usex)
        # keep the number of weights small enough for the semantic layer
        w = 0
        for nme, typ in spec['terminals'].items():
            s = 1
            for l in typ:
                s *= spec['domains'][l]
            w += s
        if w <= 26:
            out.append(spec)
    return out
