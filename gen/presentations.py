"""Presentations of one grammar (C12): the same FGG written down differently.
present(spec, choice) -> (spec2, wmap) where wmap[terminal2] = (terminal, axis permutation info) describes how the
weight tensor of the new presentation is obtained from the original symbolic weights."""
import itertools
import json


def perms(n):
    return list(itertools.permutations(range(n)))


def present(spec, choice):
    """choice: {'rule_perm': tuple, 'edge_perm': {rule idx: tuple}, 'node_rev': {rule idx: bool}, 'rename': bool, 'value_swap': bool}"""
    ren = renamer(spec) if choice.get('rename') else (lambda s: s)
    rules = []
    for ri in choice['rule_perm']:
        r = spec['rules'][ri]
        n = len(r['nodes'])
        nperm = list(reversed(range(n))) if choice.get('node_rev', {}).get(ri) else list(range(n))
        inv = {old: new for new, old in enumerate(nperm)}
        eperm = choice.get('edge_perm', {}).get(ri, tuple(range(len(r['edges']))))
        rules.append({'lhs': ren(r['lhs']), 'nodes': [ren(r['nodes'][old]) for old in nperm],
                      'edges': [{'label': ren(r['edges'][k]['label']), 'att': [inv[a] for a in r['edges'][k]['att']]} for k in eperm],
                      'ext': [inv[a] for a in r['ext']]})
    spec2 = {'start': ren(spec['start']), 'domains': {ren(k): v for k, v in spec['domains'].items()},
             'nonterminals': {ren(k): [ren(l) for l in v] for k, v in spec['nonterminals'].items()},
             'terminals': {ren(k): [ren(l) for l in v] for k, v in spec['terminals'].items()}, 'rules': rules}
    return spec2, ren


def value_perm(spec, choice):
    """permutation of the values of domain T (swap of the first two values) applied to every factor axis of label T"""
    if not choice.get('value_swap'):
        return {l: list(range(n)) for l, n in spec['domains'].items()}
    out = {}
    for l, n in spec['domains'].items():
        p = list(range(n))
        if l == 'T' and n >= 2:
            p[0], p[1] = p[1], p[0]
        out[l] = p
    return out


def permute_flat(flat, types, vp):
    """flat: row-major cells of a tensor whose axes have label types `types`; returns the cells of the tensor t2 with
    t2[i1..ik] = t[vp(i1)..vp(ik)]"""
    sizes = [len(vp[l]) for l in types]
    idx = list(itertools.product(*[range(n) for n in sizes]))
    pos = {ix: k for k, ix in enumerate(idx)}
    return [flat[pos[tuple(vp[l][i] for l, i in zip(types, ix))]] for ix in idx]


def renamer(spec):
    """consistent renaming of every node label, nonterminal and terminal that REVERSES the lexicographic order of the names
    (anything sorted or compared by name sees a different order), mixing cases so that upper/lower-case conventions do not survive"""
    names = sorted(set(spec['domains']) | set(spec['nonterminals']) | set(spec['terminals']))
    n = len(names)
    table = {}
    for rank, nme in enumerate(names):
        k = n - 1 - rank
        table[nme] = ('z' if k % 2 else 'A') + f'{k:02d}'
    f = lambda s: table[s]
    f.inv = {v: k for k, v in table.items()}
    return f
