"""Bounded family P(m) of typed sparsity patterns (DESIGN Appendix B.2).

A *recipe* describes a PatternedTensor independently of torch:
    {'psizes': [n0, n1, ...],            sizes of the physical axes
     'vaxes':  [expr, ...],              one axis expression per virtual dimension
     'layout': 'contig' | 'perm' | 'expand:<i>'}   storage layout of the physical tensor
with  expr ::= ['p', i] | ['u'] | ['prod', expr, ...] | ['sum', a, expr, b]
Every physical axis occurs in at least one expression.
"""
import itertools
import json


def numel(e, psizes):
    if e[0] == 'p':
        return psizes[e[1]]
    if e[0] == 'u':
        return 1
    if e[0] == 'prod':
        n = 1
        for f in e[1:]:
            n *= numel(f, psizes)
        return n
    if e[0] == 'sum':
        return e[1] + numel(e[2], psizes) + e[3]
    raise ValueError(e)


def _shapes_for(n, depth, sums=(0, 1, 2)):
    """axis-expression *shapes* of numel n: leaves are ('L', size) placeholders"""
    out = []
    if n == 0:
        return [('L', 0)]
    if n == 1:
        out.append(('u',))
    if n >= 2:
        out.append(('L', n))
    if depth > 0:
        # products of two or three factors >= 2
        for a in range(2, n):
            if n % a == 0 and n // a >= 2:
                b = n // a
                for ea in _shapes_for(a, 0):
                    for eb in _shapes_for(b, 0):
                        out.append(('prod', ea, eb))
                if depth > 1:
                    for eb in _shapes_for(b, depth - 1):
                        if eb[0] == 'sum':
                            out.append(('prod', ('L', a), eb))
        # sums
        for a in sums:
            for b in sums:
                k = n - a - b
                if k >= 1 and (a or b):
                    for e in _shapes_for(k, depth - 1, sums):
                        if e[0] != 'sum':
                            out.append(('sum', a, e, b))
    return out


def _leaves(e, acc):
    if e[0] == 'L':
        acc.append(e[1] if len(e) < 3 else (e[1], e[2]))
    elif e[0] == 'prod':
        for f in e[1:]:
            _leaves(f, acc)
    elif e[0] == 'sum':
        _leaves(e[2], acc)
    return acc


def _assign(e, it):
    if e[0] == 'L':
        return ['p', next(it)]
    if e[0] == 'u':
        return ['u']
    if e[0] == 'prod':
        return ['prod'] + [_assign(f, it) for f in e[1:]]
    return ['sum', e[1], _assign(e[2], it), e[3]]


def _partitions(sizes, max_axes):
    """assignments of leaf slots to physical axes: slots may share an axis only if
    their sizes agree; canonical (restricted-growth) numbering"""
    n = len(sizes)
    res = []

    def rec(i, assign, axsizes):
        if i == n:
            res.append((list(assign), list(axsizes)))
            return
        for a in range(len(axsizes)):
            if axsizes[a] == sizes[i]:
                assign.append(a)
                rec(i + 1, assign, axsizes)
                assign.pop()
        if len(axsizes) < max_axes:
            assign.append(len(axsizes))
            axsizes.append(sizes[i])
            rec(i + 1, assign, axsizes)
            axsizes.pop()
            assign.pop()
    rec(0, [], [])
    return res


def recipes(shape, depth=1, max_axes=3, max_phys=8, layouts=('contig',), sums=(0, 1, 2), same_axis_in_product=False):
    """all recipes of the given virtual shape"""
    per_dim = [_shapes_for(n, depth, sums) for n in shape]
    out = []
    for combo in itertools.product(*per_dim):
        sizes = []
        for e in combo:
            _leaves(e, sizes)
        for assign, axsizes in _partitions(sizes, max_axes):
            pn = 1
            for s in axsizes:
                pn *= s
            if pn > max_phys:
                continue
            it = iter(assign)
            vaxes = [_assign(e, it) for e in combo]
            if not same_axis_in_product and any(_dup_in_product(v) for v in vaxes):
                continue
            for lay in layouts:
                if lay == 'perm' and len(axsizes) < 2:
                    continue
                if lay.startswith('expand') and not axsizes:
                    continue
                if lay.startswith('expand'):
                    for i in range(len(axsizes)):
                        out.append({'psizes': axsizes, 'vaxes': vaxes, 'layout': f'expand:{i}'})
                else:
                    out.append({'psizes': axsizes, 'vaxes': vaxes, 'layout': lay})
    return out


def _dup_in_product(e):
    if e[0] == 'prod':
        ls = []
        for f in e[1:]:
            _pl(f, ls)
        return len(ls) != len(set(ls))
    if e[0] == 'sum':
        return _dup_in_product(e[2])
    return False


def _pl(e, acc):
    if e[0] == 'p':
        acc.append(e[1])
    elif e[0] == 'prod':
        for f in e[1:]:
            _pl(f, acc)
    elif e[0] == 'sum':
        _pl(e[2], acc)


def features(r):
    s = repr(r['vaxes'])
    leaves = []
    for v in r['vaxes']:
        _pl(v, leaves)
    return {'shared_axis': len(leaves) != len(set(leaves)), 'has_sum': "'sum'" in s, 'has_prod': "'prod'" in s,
            'layout': r['layout'].split(':')[0], 'nphys': len(r['psizes'])}


def depict(r):
    def d(e):
        if e[0] == 'p':
            return 'XYZW'[e[1]] + str(r['psizes'][e[1]])
        if e[0] == 'u':
            return '1'
        if e[0] == 'prod':
            return '(' + '*'.join(d(f) for f in e[1:]) + ')'
        return f'({e[1]}+{d(e[2])}+{e[3]})'
    return '[' + ', '.join(d(v) for v in r['vaxes']) + ']/' + r['layout']


# --------------------------------------------------------------------------
# index *types* and well-typed patterns
#
#   type ::= ['n', k]                    atomic index type with k values
#          | ['x', type, type]           product type
#          | ['+', type, ..., type]      (n-ary) sum type
#
# A pattern (axis expression) is an *instance* of a type if it is a physical axis (or the
# unit axis) of the type's numel, a product of instances of the factors, or an injection
# SumAxis(before, instance of the j-th summand, after) where before/after are the total
# sizes of the other summands.  Two instances of one type always have compatible layouts:
# co-indexing them in an einsum, or comparing them, is what the library calls well typed.

def tnumel(t):
    if t[0] == 'n':
        return t[1]
    if t[0] == 'x':
        return tnumel(t[1]) * tnumel(t[2])
    return sum(tnumel(c) for c in t[1:])


def types_for(n, depth=1, max_summands=3):
    out = [['n', n]]
    if depth <= 0 or n <= 1:
        return out
    for a in range(2, n):
        if n % a == 0 and n // a >= 2:
            for ta in types_for(a, depth - 1):
                for tb in types_for(n // a, depth - 1):
                    out.append(['x', ta, tb])
    # sums of 2..max_summands parts
    def comps(total, k):
        if k == 1:
            yield (total,)
            return
        for first in range(1, total - k + 2):
            for rest in comps(total - first, k - 1):
                yield (first,) + rest
    for k in range(2, max_summands + 1):
        for parts in comps(n, k):
            kids = [types_for(p, depth - 1) for p in parts]
            for combo in itertools.product(*kids):
                if all(c[0] != '+' for c in combo):
                    out.append(['+'] + list(combo))
    return out


def instances(t):
    """axis-expression shapes (with ('L', size) leaf placeholders) that are instances of type t"""
    n = tnumel(t)
    # a leaf remembers the index type it densely instantiates: two leaves may share a physical axis only if their types agree
    # (a diagonal across differently typed indices is ill-typed; the library's unification assumes it does not occur)
    out = [('u',)] if n == 1 else [('L', n, json.dumps(t))]
    if t[0] == 'x':
        for a in instances(t[1]):
            for b in instances(t[2]):
                if a[0] == 'u':
                    e = b
                elif b[0] == 'u':
                    e = a
                else:
                    e = ('prod', a, b)
                if e not in out:
                    out.append(e)
    elif t[0] == '+':
        sizes = [tnumel(c) for c in t[1:]]
        for j, c in enumerate(t[1:]):
            for e in instances(c):
                out.append(('sum', sum(sizes[:j]), e, sum(sizes[j + 1:])))
    return out


def typed_recipes(types, max_axes=3, max_phys=8, layouts=('contig',), same_axis_in_product=False):
    """all recipes whose d-th virtual axis is an instance of types[d]"""
    per_dim = [instances(t) for t in types]
    out = []
    for combo in itertools.product(*per_dim):
        sizes = []
        for e in combo:
            _leaves(e, sizes)
        for assign, axsizes in _partitions(sizes, max_axes):
            axsizes = [a[0] if isinstance(a, tuple) else a for a in axsizes]
            pn = 1
            for s_ in axsizes:
                pn *= s_
            if pn > max_phys:
                continue
            it = iter(assign)
            vaxes = [_assign(e, it) for e in combo]
            if not same_axis_in_product and any(_dup_in_product(v) for v in vaxes):
                continue
            for lay in layouts:
                if lay == 'perm' and len(axsizes) < 2:
                    continue
                if lay.startswith('expand'):
                    for i in range(len(axsizes)):
                        if axsizes[i] > 1:
                            out.append({'psizes': axsizes, 'vaxes': vaxes, 'layout': f'expand:{i}'})
                else:
                    out.append({'psizes': axsizes, 'vaxes': vaxes, 'layout': lay})
    return out


def type_tuples(shape, depth=1, cap=None):
    """all tuples of index types for the given virtual shape"""
    per = [types_for(n, depth) for n in shape]
    out = [list(c) for c in itertools.product(*per)]
    return out[:cap] if cap else out


def depict_type(t):
    if t[0] == 'n':
        return str(t[1])
    if t[0] == 'x':
        return '(' + depict_type(t[1]) + 'x' + depict_type(t[2]) + ')'
    return '(' + '+'.join(depict_type(c) for c in t[1:]) + ')'


# --------------------------------------------------------------------------
# building a PatternedTensor from a recipe (works with the model and with real torch)

def build(r, elems, default, torch, indices, dtype):
    """elems: flat list of prod(psizes) physical elements in index order (for an
    'expand:i' layout the elements along axis i are shared: len = prod/psizes[i])"""
    ps = r['psizes']
    paxes = [indices.PhysicalAxis(n) for n in ps]

    def ax(e):
        if e[0] == 'p':
            return paxes[e[1]]
        if e[0] == 'u':
            return indices.unitAxis
        if e[0] == 'prod':
            return indices.productAxis([ax(f) for f in e[1:]])
        return indices.SumAxis(e[1], ax(e[2]), e[3])
    vaxes = tuple(ax(e) for e in r['vaxes'])
    lay = r['layout']
    if lay == 'contig':
        phys = make_tensor(torch, elems, ps, dtype)
    elif lay == 'perm':
        rev = list(reversed(ps))
        phys = make_tensor(torch, elems, rev, dtype).permute(*reversed(range(len(ps)))) if len(ps) > 1 else make_tensor(torch, elems, ps, dtype)
    else:
        i = int(lay.split(':')[1])
        small = [n for j, n in enumerate(ps) if j != i]
        phys = make_tensor(torch, elems, small, dtype).unsqueeze(i).expand(*ps)
    return indices.PatternedTensor(phys, tuple(paxes), vaxes, default)


def nelems(r):
    n = 1
    lay = r['layout']
    skip = int(lay.split(':')[1]) if lay.startswith('expand') else None
    for j, s in enumerate(r['psizes']):
        if j != skip:
            n *= s
    return n


def make_tensor(torch, elems, size, dtype):
    """tensor of the given size from a flat element list; symbolic under the model"""
    size = tuple(size)
    n = 1
    for s in size:
        n *= s
    assert len(elems) == n, (len(elems), size)
    if hasattr(torch.Tensor, '_new'):
        return torch.Tensor._new(list(elems), size, dtype)
    return torch.tensor(list(elems), dtype=dtype).reshape(size)
