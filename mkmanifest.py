#!/usr/bin/env python3
"""regenerate MANIFEST.json from the table below"""
import json, os
HERE = os.path.dirname(os.path.abspath(__file__))
props = [json.loads(l) for l in open(os.path.join(HERE, 'properties.jsonl'))]

COMMON_NOTE = ('Trusted base: z3 4.x/5.1 (python3-vt), the symx forking engine, the oracle modules under /verif/oracles, and -- for '
               'checks with tensor values -- the symtorch model of torch (validated by running the repository\'s 109 unit tests on it and by '
               'replaying every counterexample on real torch). Outside every claim: float rounding/overflow/subnormals (finite values are exact '
               'reals), sizes beyond the stated bounds, GPU, complex dtypes. ')

CHECKS = {
 'C18': dict(
    text='The history of library queries applied to one set of objects is a vector of solver variables (q, r[, s], q): every query is observed before and after every other query and repeated. A deep snapshot of every argument -- rules, nodes, edges, externals, '
         'label tables, domains and factor bindings by object identity; per weight tensor size, stride, offset, dtype, requires_grad, axis expressions, default and every cell of the underlying storage (also of the plain tensor the user handed in, including cells outside the view) -- '
         'is taken before the history and after each query. Storage cells are z3 terms, so "bit-for-bit unchanged" is decided for all weight values at once: a cell that is no longer the identical term becomes a solver query, and a value-dependent write (e.g. an in-place nan_to_num_ that only '
         'matters for infinite weights) is a satisfiable one. The repeated query must return the first result (structure verbatim, cells by solver query). For every in-place operation of PatternedTensor and a list of MultiTensor steps, the storage and the denotation of the tensor that was '
         'NOT operated on (source vs clone, source vs copy_ destination) are compared cell by cell. Right level: purity is a frame property over call histories and aliasing; symbolic cells make every write visible whatever the values are.',
    note='Bounds: histories of length 3 (quick) / 4 (thorough) over 7-10 queries per grammar {sum_product x 3 methods, sum_products, viterbi, viterbi+derive, sum_product+backward, factorize_fgg x 2, fgg_to_json, hrg_to_json} resp. {factorize_hrg x 3, factorize_rule with/without labels, conjoin_hrgs, hrg_to_json} '
         'on weight-free grammars with large rules; besides the accessor-level snapshot the library\'s own == against a twin HRG assembled before the history and the per-nonterminal rule counts are observed (sees e.g. an empty rule list inserted by a query); grammars: feature set, two-level sample, 9 recursive shapes, large-rule family, <=16 weights; weight presentations: contiguous / permuted / offset-slice tensors and PatternedTensors of the typed pattern family incl. stride-0 storage; '
         'clone part: every in-place entry of the C06 operation table x patterns of rank<=2 (quick) / 3 x 4 modes; MultiTensor: 13 steps x 4 modes x present/absent blocks over 2 keys. '
         'fgg_to_json calls float() per cell (C boundary): histories containing it, and real-semiring recursion with more than 2 weights, run on concrete weights (enumeration, labelled). viterbi only on non-recursive grammars (F14). .grad accumulation on leaves is not part of the snapshot. Set-valued label tables compared as sets.',
    technique='symbolic query histories (sequence as solver variables) + SMT identity of storage cells before/after (z3)', design='5/C18'),
 'C12': dict(
    text='The presentation of a grammar (rule, edge and node insertion order, explicit vs implicit ids, consistent renaming of labels, a transposition of domain values applied to every matching factor axis) is a vector of solver variables, i.e. a symbolic schedule: '
         'it fixes dict/set iteration order inside the solvers. Every presentation inside the bound is explored; both presentations are evaluated by sum_product over the same symbolic weights and the solver decides cell-wise equality of the start tensors modulo the value '
         'permutation, of the gradients for Real non-recursive grammars and for recursive ones with concrete recursion weights, and of the weight of the viterbi derivation (independent evaluator over derive()) for every start assignment.',
    note='Bounds: grammars with <=3 (sampled permutations beyond) rules and <=12 weights from the feature set, a seeded two-level sample and 5 recursive shapes (Bool/Viterbi exact with tol=0, Real via method linear with fewer presentation dimensions); '
         'quick: edge permutations of the first rule, node reversal of the first two rules, renaming tied to explicit ids. The renaming reverses the lexicographic order of all names and mixes cases. Added shapes: rules with 2-3 internal nodes (several arg-max pointers) for the viterbi clause (finite weights, grammars in which every start assignment has a derivation, non-recursive: F14), '
         'SCCs of 3 and 4 nonterminals with chords (also through method linear in Bool/Viterbi: pivot order of multi_solve), recursive gradients across up to 10 (quick) / 24 rule orders. Not decided here: hash-order effects of str ids (PYTHONHASHSEED fixed).',
    technique='symbolic schedules (presentation choices as solver variables) + SMT equivalence (z3)', design='5/C12'),
 'C11': dict(
    text='The obligations of C01/C03/C07/C06/C13 are re-decided under the variations the property names: (a) gradients with j_precompute=True against the same forward-mode derivatives, (b) the same harnesses in a child interpreter started with -OO (-O and -OO in thorough), '
         'where assert statements and `if __debug__:` blocks of fggs do not exist -- a crash or a changed term there means an assertion was doing work, (c) one grammar in all four semirings on related symbolic inputs: exp(Log) == Real, Bool == (Real > 0), Viterbi <= Log per cell. '
         'Method names and float32/float64 are varied inside C01 against one oracle.',
    note='Bounds: as C03 for (a); 40 (quick) / 400 (thorough) cases per re-run check for (b); non-recursive grammars with <=8 weights for (c). "Within floating-point tolerance" is decided as exact equality of real-valued terms. '
         'bin/sum_product.py itself is not executed. Known findings F23/F24 (j_precompute) are confined by their signatures.',
    technique='SMT equivalence over symbolic execution under option / semiring / interpreter-mode variation', design='5/C11'),
 'C14': dict(
    text='Node and edge ids (explicit ids from a pool built around string ordering, or implicit ids produced by a stub of id() that returns solver-chosen distinct ints), attachments and external lists are solver variables; every choice is explored and the round trip '
         'hrg_to_json / json.dumps / json_to_hrg must reproduce the grammar up to renaming of implicit ids, verbatim on a second round trip when all ids are explicit; out-of-range (incl. negative) node numbers must raise ValueError. For patterned weight specifications the solver '
         'decides, per cell and for all physical entries, that json_to_weights denotes the tensor the specification describes (independent evaluator). Whole-FGG round trips with concrete sentinel weights are an enumeration sub-check, labelled as such.',
    note='Bounds: one rule with 2 (quick) / 3 nodes and 2 edges; id pool {a,b,"10","9",A,""} + implicit ids from {9,10,100} (thorough 5 values); node numbers -3..3; 19 weight specifications (rank<=3, expand, products, sums, shared axes, defaults, slices that are themselves patterned), each also written back with weights_to_json under three defaults; '
         'FGG round trip on the feature set + 40 grammars with concrete weights incl. inf. CrossHair contracts over symbolic strings were not built; ids come from the pool.',
    technique='bounded symbolic execution with an id() stub + SMT denotation equality (z3)', design='5/C14'),
 'C20': dict(
    text='Domain value lists, probe values, factor/weight shapes and label/factor pairings are chosen by solver variables; the real FiniteDomain/RangeDomain/FiniteFactor/add_factor/add_domain/shape code is executed for every choice and compared with the definition '
         '(mutually inverse numberings, contains, equality by content; weights accepted iff shapes agree; apply returns exactly the symbolic cell at the numberized position; binding succeeds iff terminal, arity and domains match and the label is unbound; rejected calls change nothing).',
    note='Bounds: value lists of length <=3 (quick) / <=4 from a 10-element pool of mixed hashable values; sizes 0..3, ranks <=2; weights as nested lists (concrete sentinels), Tensor or PatternedTensor (symbolic cells); 1560 binding combinations (label type x terminal? x factor sizes x content variant {same, other values of equal size at the first/last position, reordered, equal-size RangeDomain} x already bound? x domain table). '
         'Outside: nested lists for shapes with a zero before the last axis (inexpressible); patterned weights with non-trivial sparsity patterns are covered by C06 __getitem__.',
    technique='bounded symbolic execution (symbolic value lists and shapes) + SMT identity of applied cells', design='5/C20'),
 'C17': dict(
    text='The two grammars are chosen by solver variables from a universe of rule skeletons over shared node/edge ids and of nonterminal names built to provoke pairing clashes; conjoin_hrgs must produce exactly one rule per conjoinable pair (conjoinability by the '
         'definition), each carrying nodes, externals, the paired nonterminal edges and both sets of terminal edges, under an injective naming of pairs disjoint from existing labels, with start = pair of starts; terminal conflicts raise ValueError; arguments untouched. '
         'The correspondence of derivations is decided directly up to depth 3: the multiset of complete derivation trees of the conjunction (decorated with nodes, externals and terminal edges) must equal the multiset of paired derivations of the arguments built from the definition.',
    note='Bounds: <=2 rules per grammar, 8 (quick) / 9 (thorough) skeletons incl. arity-2 nonterminal edges attached in either order and external nodes listed in either order, 3+3 arity-1 and 1+1 arity-2 nonterminal names, 7 label variants (all of them on single-rule grammars, plain [+ reversed edge insertion] on two-rule grammars); '
         'second rules are sampled (every 14th / 13th candidate in quick, 6th / 8th in thorough) while first rules are exhaustive; derivations up to depth 3. '
         'Symbolic-string exploration of unique_label_name / nonterminal_pairs (CrossHair) was not built.',
    technique='bounded symbolic execution (symbolic grammar structure) + definitional oracle', design='5/C17'),
 'C15': dict(
    text='One step from an arbitrary host: host graph and replacement are chosen by solver variables from a universe built around repeated attachment nodes, repeated labels, nullary edges and ill-typed replacements; replace_edge is compared with its definition '
         '(edge removed, externals identified in order, fresh distinct copies, labels and attachment order kept, frame untouched, wrong type rejected without side effects). Order independence: the rewriting order of each derivation tree is a symbolic schedule; '
         'every linearisation is explored and all results must be isomorphic to each other and to FGGDerivation.derive(), whose assignment must be total and carry exactly the rule instances\' factors.',
    note='Bounds: hosts with <=3 nodes and <=2 edges besides none, replacements with <=3 nodes, <=2 edges, <=2 distinct externals; derivation trees with <=4 rule instances over 2 HRGs (rules with two nonterminal edges, a rule used twice). '
         'Outside: replacements listing an external node twice; label-name clashes between host and replacement.',
    technique='bounded symbolic execution (symbolic structure choice, symbolic rewriting schedule)', design='5/C15'),
 'C16': dict(
    text='The sequence of public API calls is a vector of solver variables; the symbolic executor explores every sequence up to the length bound over a small universe designed around name clashes, id re-use and ill-typed arguments, pruning at states already '
         'explored at least as deeply. After every call the representation invariant is checked, a call that raised must leave every public observation unchanged, and copies must be equal, observation-equal (label tables, domains, factors) and independent. '
         'Right level: the property quantifies over call histories; bounded exhaustive exploration with state merging covers every short history, which is where validation-order bugs live.',
    note='Bounds: sequences of <=3 calls on Graph and <=4 on HRG/FGG in both tiers (the thorough tier enlarges the universe of ids and node references: about 350 calls per step instead of 175); universe: labels L,M; node ids a,(b),implicit; edge labels f:(L), f:(M), g:(L,L), X:(L), X:(M), c:() and, for rules only, Y:(L), Y:(M) (a nonterminal name new to the grammar; X is always the start symbol); <=3 nodes, <=2 edges, <=3 rules; 10 rule shapes. '
         'Not covered: remove/new convenience wrappers beyond those listed, longer histories, == transitivity on triples.',
    technique='bounded symbolic execution over API call sequences (z3 path forking), invariant + frame checks', design='5/C16'),
 'C05': dict(
    text='factorize_rule / factorize_hrg / factorize_fgg run on grammars with large right-hand sides; on every path the structural obligations are checked (requested method reaches tree_decomposition, fresh distinct names, no rule widened, '
         'inlining the fresh nonterminals reproduces the original rule with every edge exactly once and nodes shared only through externals) and the solver decides that sum_product of the factorized FGG equals that of the original for all factor weights, per cell. '
         'Right level: a lost, duplicated or re-attached edge changes the sum-product polynomial, which the solver compares for all values at once.',
    note='Bounds: rules with <=5 nodes, <=5 edges of arity 0-3, <=2 externals, <=26 weights; hand-written shapes + seeded family; 3 methods; 4 semirings (T regime Viterbi/Bool, positive weights Real/Log). '
         'Name freshness is checked on the names the run produces (no symbolic-string exploration of unique_label_name). Fresh names are also checked against an adversarial label table (the grammar re-factorized with an extra terminal named like the first fresh nonterminal).',
    technique='symbolic execution + SMT equivalence of sum-products (z3); structural inlining check per path', design='5/C05'),
 'C10': dict(
    text='The adjacency matrix of the input graph is a vector of solver variables and the symbolic executor partitions the whole space of graphs up to the vertex bound; on every path the real tree_decomposition / min_fill / quickbb / minor_min_width code runs '
         'and the result is checked for validity (tree, vertex and edge cover, running intersection); optimality of acb and quickbb and the bracket lower <= tw <= upper are judged against an independent SMT treewidth oracle (ordering-based encoding). '
         'Right level: small graphs with isolated vertices / several components are exactly the rare inputs, and exhaustive coverage up to n=5/6 is affordable.',
    note='Bounds: all simple graphs on <=5 (quick) / <=6 (thorough) labelled vertices x 3 methods; on such graphs min_fill is always optimal, so the branch-and-bound of quickbb never runs past its start -- therefore additionally the neighbourhoods of 16 cores on 7-9 vertices on which min_fill is NOT optimal '
         '(found by an offline search, gen/hard_graphs.json): 4 (quick) / 8 (thorough) edge slots flipped symbolically x 3 / 6 vertex insertion orders chosen symbolically (dict order decides ties and the order reductions meet the vertices). Larger graphs (the benchmark .gr files) are outside the claim.',
    technique='bounded symbolic execution (z3 path forking) + SMT treewidth oracle', design='5/C10'),
 'C03': dict(
    text='sum_product followed by back-propagation is executed on the z3-valued tensor model (autograd.Function modelled by per-storage-cell cotangent accumulation; SumProduct.backward, J/J_log, multi_solve(transpose), multi_mv, project run as is) '
         'with symbolic weights and a symbolic output cotangent; per weight entry the solver decides equality with sum_j c_j dZ_j/dw from forward-mode (dual number) differentiation of the definitional sum-product. Right level: an identity between two '
         'rational functions of all weights; gradcheck samples one point.',
    note='Bounds: non-recursive grammars of the C01 families with <=10 weights (shared factors, unreachable factors, duplicate externals, edgeless nodes), Real and Log, three method names. Regimes: positive weights, Real also one zero weight. '
         'Recursive SCCs: SumProduct.backward is driven directly on a symbolic fixed point z = G(z,w) (assumed together with spectral radius < 1) for SCCs of one or two scalar nonterminals (linear, quadratic, mutual, non-linear mutual) and decided against the implicit-function identity '
         '(dG/dw)^T lambda with lambda = (dG/dz)^T lambda + c, in the Real and in the Log semiring (chain rule through exp/log), incl. SCCs containing a structurally dead nonterminal (dead rule first / middle / last). '
         'Tensor-valued recursion (vector- and matrix-valued nonterminals, two rules feeding one Jacobian block, mutual vector recursion, a 3-nonterminal SCC with a chord in both insertion orders) runs through the public API (forward linear/newton + backward) with concrete dyadic recursion weights '
         'and symbolic base weights and cotangents, against the least fixed point and its derivatives computed exactly over the rationals (oracles/lfp_linear.py); symbolic recursion weights of tensor-valued SCCs are outside the claim (non-linear arithmetic beyond the solver budget).',
    technique='SMT equivalence with forward-mode derivatives of the definitional sum-product (z3 NRA)', design='5/C03'),
 'C04': dict(
    text='viterbi() is executed on the z3-valued tensor model with symbolic log-weights; arg-max back-pointers are symbolic integers, so every feasible optimum/tie becomes its own path. Per path the derivation is checked for well-formedness and the '
         'solver decides that the weight of derive() (independent evaluator) equals the definitional maximum over all derivations x assignments (when finite) and the Viterbi-semiring sum_product. Right level: optimality for all weights and all ties is a '
         'quantified statement; tests fix one weight vector.',
    note='Rules that list an external node twice are outside the viterbi clauses of C04 and C12 (viterbi raises KeyError on them; hyperedge replacement with duplicated externals is outside C15 as well; sum_product supports them and C01 covers that). Bounds: feature set + seeded samples of the single-rule / two-level families (<=3 nodes, <=4 edges per rule, <=12 weights), up to 3 start assignments each; recursive shapes of C02 with weights <= 0, derivation depth N+2. '
         'Outside: +inf log-weights, rules listing an external node twice. Known finding F14 (zero-weight cycles recurse forever) is confined by its signature.',
    technique='path-forking symbolic execution with symbolic arg-max pointers + SMT optimality queries (z3 LRA)', design='5/C04'),
 'C02': dict(
    text='sum_products is executed on recursive grammar shapes with all weights symbolic; every stopping test forks the path. The least-fixed-point clause is decided without computing limits by the Knaster-Tarski '
         'characterisation against an independently built equation map G: r = G(r) and, for a fresh universally quantified y, G(y) <= y implies r <= y. Exact for Bool, Viterbi (tol=0, non-positive weights) and the linear solver; '
         'for Real/Log iterative methods every path returning without a warning lies below every pre-fixed point, met its stopping criterion (observed) and (fixed-point) is stationary within tol. Budget N+1 in idempotent semirings must not be '
         'exhausted (unwinding assertion). linear on a non-linear grammar raises ValueError.',
    note='Bounds: 9 recursive shapes (scalar linear/quadratic, self-loops, two-cycle, HMM-shaped arity-1 over a size-2 domain, two SCCs, recursive start, non-linear mutual recursion), <=4 unknown cells, <=8 weights; '
         'kmax in {0,1,N+1} (Bool/Viterbi), {0,1,2} (Real iterative, smaller for larger shapes); tol 1e-5; plus SCCs of 3 and 4 scalar nonterminals with chords (fill-in during block elimination), and two grammars whose base-case / step factor is handed over as a diagonal PatternedTensor '
         '(the sparsity pattern of the iterate grows between iterations; Bool over a 4-value domain, Viterbi over 2 values). Outside: the limit statement "error vanishes as tol -> 0"; Viterbi with positive cycles or +inf; newton on non-linear SCCs uses the linalg.solve contract stub.',
    technique='path-forking symbolic execution + Knaster-Tarski SMT queries (z3)', design='5/C02'),
 'C09': dict(
    text='Semiring.solve, PatternedTensor.solve, multi_solve (both transpose flags) and multi_mv run on the z3-valued tensor model; the returned x is decided to be the least solution by two SMT queries per '
         'right-hand side over the independently denoted dense system: x = A x + b, and for a fresh universally quantified y: A y + b <= y implies x <= y (Knaster-Tarski), which also settles divergence to the '
         'infinite element. Arguments are compared cell-wise before/after. Right level: "least solution for all entries" is a quantified statement over values; no iteration or limit is needed.',
    note='Bounds: dense order n<=2 (Log: n=1; Viterbi/Bool n<=3 thorough), right-hand sides with m<=2 columns; PatternedTensor.solve on well-typed pattern pairs over index types of numel 2 (thorough 3) with <=6 (Log 4) physical entries; '
         'multi_solve/multi_mv over every present/absent combination of 4 A-blocks x 2 b-blocks on two keys, block shapes (2,),() for Viterbi/Bool (flattened order 3) and scalar blocks for Real/Log (order 2; Log <=2 A-blocks). '
         'Regimes: T for Viterbi/Bool; for Real/Log every entry class profile zero/positive/infinite (all 3^k for k<=6, seeded sample beyond) with y tagged; comparisons fork the path. torch.linalg.solve is a contract stub. '
         'Real semiring additionally with 13 concrete dyadic system matrices of order 2-4 (spectral radius <1, =1, >1, infinite and zero entries, cycles, triangular) and a fully tagged symbolic right-hand side (vector or 2 columns), as Semiring.solve and cut into blocks over two keys '
         '(one- and two-axis blocks, both transpose flags, present/absent b blocks): the linalg shortcut, its acceptance test and the Gauss-Jordan fallback all run, and leastness is linear arithmetic.',
    technique='Knaster-Tarski least-fixed-point SMT queries (z3) over symbolic execution of the real solvers', design='5/C09'),
 'C01': dict(
    text='sum_products / sum_product are executed end to end (SCC ordering, per-SCC method downgrade, F, sum_product_edges, patterned einsum, real torch_semiring_einsum) on the z3-valued tensor model with every factor '
         'entry symbolic; for every nonterminal and every cell the solver decides equality with the definitional sum over rules x node assignments (semiring operations with 0 x inf = 0). Right level: the property is an '
         'algebraic identity per grammar shape; values are quantified by the solver, shapes enumerated/generated inside the bound.',
    note='Bounds: rules with <=3 nodes and <=4 edges, <=3 nonterminals, labels T(2), U(1|3), <=14 (quick) / <=22 (thorough) symbolic weights per grammar; all 4 semirings, 3 method names, float32/float64, requires_grad on/off. '
         'Grammar families: exhaustive single-rule family (thorough; seeded sample in quick), seeded two-level family, hand-written feature set. Regimes T / P+S as stated in evidence.',
    technique='SMT equivalence with the definitional sum-product (z3 NRA/LRA) over symbolic execution of the real code', design='5/C01'),
 'C13': dict(
    text='equal/allclose/equal_default/allclose_default/MultiTensor.allclose return Python bools: every call forks the symbolic executor, and on each path the solver decides that the returned value '
         'is equivalent to the cell-wise IEEE (resp. isclose) comparison of the independently denoted dense tensors, for all element values incl. nan and +-inf. Symmetry, reflexivity on nan-free tensors and '
         'representation-insensitivity (clone, densification, re-patterning) are separate obligations. Right level: the decision depends on which supports overlap and on defaults being visible or covered -- a '
         'structure x value question.',
    note='Bounds: ordered well-typed pattern pairs over shapes up to rank 2 / numel 6 (quick; thorough rank 3 / numel 8), capped per index type (seeded sample beyond); defaults {0,1,inf,-inf,nan}; '
         'tolerances {(0,0),(0,1e-5),(1e-5,1e-8),(0,0.5)}; tagged elements for <=6 unknowns, finite otherwise; MultiTensor over 2 keys.',
    technique='path-forking symbolic execution + SMT equivalence (z3 LRA)', design='5/C13'),
 'C06': dict(
    text='Every operation PatternedTensor offers (about 150 table entries incl. in-place forms, scalar variants, reductions, structural operations, reshape/view targets) is executed on the z3-valued tensor model '
         'for all well-typed operand patterns inside the bound and compared, cell by cell and for all element values, with the same torch operation applied to the independently denoted dense tensors; '
         'the representation invariant (at most one physical element per virtual element) is asserted on every PatternedTensor the library constructs. Right level: pattern x default x value corner '
         'combinations are far beyond hand-written cases; the solver quantifies values, the typed enumeration covers structure.',
    note='Bounds: shapes up to rank 2 / numel 6 (quick), rank 3 / numel 8 (thorough); index types of depth 1; <=3 physical axes; single operations plus two-step compositions (14 structural/unary first operations x 21 second operations on numeric tensors: every sixth in quick, every second in thorough). '
         'Outside the claim: in-place operations on a receiver whose physical tensor is a stride-0 expansion (torch refuses such writes too), stack of tensors whose common default is nan, negative dim for dim_to_dense. '
         'Known finding F6 (log_softmax with infinite default) is confined by its signature.',
    technique='SMT equivalence of patterned vs dense execution (z3), representation-invariant monitor', design='5/C06'),
 'C07': dict(
    text='indices.einsum / mv / mm / log_viterbi_einsum_forward and the unmodified torch_semiring_einsum package are executed on the z3-valued tensor model for every '
         'well-typed combination of sparsity patterns inside the bound; per output cell the solver decides equality with the definitional semiring einsum of the '
         'independently denoted dense operands (Viterbi variant: the returned pointer selects a term equal to the maximum). Right level: the interesting inputs are '
         'value corners (0, inf, 0 x inf) and pattern/stride structure; the solver quantifies the former, the typed enumeration covers the latter.',
    note='Bounds: 29 (quick) / 41 (thorough) signatures up to 4 letters and 3 operands, letter sizes {1,2,3} (thorough 0,4), index types of depth 1 (atomic, binary product, 2-3-ary sum), '
         'patterns = all instances of the types with <=3 physical axes incl. shared (diagonal) axes, stride-0 and permuted storage, capped combinations per signature (seeded sample beyond the cap); '
         'regimes: T for Viterbi/Bool and small Real cases, P+S (positive / one-inf-one-zero profiles) otherwise. Known finding F5 (Viterbi variant with +inf and -inf) is confined to its own region.',
    technique='SMT equivalence queries over symbolic execution of the real code (z3 NRA/LRA)', design='5/C07'),
 'C08': dict(
    text='Every law is an SMT validity query over tagged symbolic carrier elements (finite, zero and infinite at once) evaluated through the real '
         'Semiring/PatternedTensor code on the z3-valued tensor model; star is decided least with a Knaster-Tarski query (fresh universally quantified y). '
         'Right level: laws over a value domain are exactly what a solver can quantify over and tests can only sample.',
    note='Bounds: operands 0-d/1-d Tensors and all ordered pairs of patterned operands over shapes (2,),(2,2) [thorough +(3,),(2,3)] x defaults {zero,one,inf}; vectors of length<=4; naturals<=6. '
         'Log semiring in exponential representation; exp(-1) and exp(+-FLT_MAX) are boxed uninterpreted constants. NaN is not a carrier element. '
         'One float-rounding effect is modelled, for LogSemiring.star only (law star_absorb): exp(x) is exactly 1.0 for x in (log(1-u),0), u=2^-25 (float32) / 2^-54 (float64); '
         'on that class star(x) must stay below the infinite element; counterexamples are replayed at x=-u/2 after checking torch.exp(x)==1 on real torch. All other rounding stays outside the claim.',
    technique='SMT validity queries over symbolic execution of the real code (z3, NRA/LRA)', design='5/C08'),
 'C19': dict(
    text='Bounded symbolic execution of the real scc/nonterminal_graph: adjacency bits, insertion order and HRG shape are solver variables; '
         'every path of the real code within the bound is explored (solver-complete partition) and compared with an independent reachability oracle. '
         'Right level: the functions are small pure graph algorithms whose only inputs are finite structures.',
    note='Bounds: digraphs with <=3 (quick) / <=4 (thorough) vertices incl. self-loops, all insertion orders for n<=3; additionally loop-free digraphs on 4 vertices with <=4 (thorough <=6) edges under all 24 key orders and both neighbour-list orders, thorough also 5 vertices with <=4 edges under 12 key orders '
         '(a cross edge into a finished component is told from a back edge only by the visiting order); HRGs with <=2/3 rules over 3 nonterminals. '
         'The corollary on sum_products keys is checked by C01.',
    technique='bounded symbolic execution (z3-driven path forking), per-path oracle', design='5/C19'),
}

checks = []
for p in props:
    pid = p['id']
    if pid not in CHECKS:
        continue
    c = CHECKS[pid]
    checks.append({
        'property_id': pid,
        'quick_cmd': f'./vcheck {pid} --tier quick',
        'thorough_cmd': f'./vcheck {pid} --tier thorough',
        'evidence_file': f'/verif/evidence/{pid}.json',
        'replay_cmd_template': f'./vcheck {pid} --replay {{path}}',
        'engine': 'symx+z3' + ('+crosshair' if c.get('crosshair') else ''),
        'level_claimed': {'category': 'other', 'text': c['text'], 'design_ref': 'DESIGN.md section ' + c['design']},
        'level_note': COMMON_NOTE + c['note'],
        'technique': c['technique'],
    })
na = [{'property_id': p['id'], 'reason': 'check not built yet (see DESIGN.md)'}
      for p in props if p['id'] not in CHECKS]
m = {
 'version': 1,
 'setup_cmd': './setup.sh',
 'hooks': {'guard': 'FGGS_VERIF', 'enable': 'harness-side only: checks wrap/rebind in their own process (PatternedTensor.__post_init__, fggs.fggs._id); no source hook in /repo',
           'baseline_off_cmd': 'cd /repo && /venv/bin/python -m pytest -ra -q -p no:cacheprovider --timeout=900 --continue-on-collection-errors',
           'source_commits': [], 'add_only': True},
 'engines': [
   {'name': 'symx+z3', 'path': '/verif/symx.py', 'serves_properties': sorted(CHECKS), 'kind_free_text': 'replay-forking symbolic executor over z3; real fggs sources executed on the symtorch tensor model (/verif/symtorch) with z3 terms as tensor elements'},
 ],
 'checks': checks,
 'notes': 'Solver-based checking of the real fggs code; see DESIGN.md. Exit codes: 0 held, 1 VIOLATION (replay-confirmed), 3 harness error / inconclusive.',
 'not_applicable': na,
}
json.dump(m, open(os.path.join(HERE, 'MANIFEST.json'), 'w'), indent=1)
print('checks:', [c['property_id'] for c in checks])
