"""C06 -- patterned tensors behave exactly like the dense tensors they denote."""
import itertools
import math
import random
import sys
import time
import common
import boot      # noqa
import torch
import fggs
import z3
import sx
import symx
import lib
import symvals
import tensorlib as TL
from fggs import indices
from oracles import c06_ops, c06_run as R
from gen import patterns
from c08 import SymBackend

PID = 'C06'
DEFAULTS = {'num': [0.0, 1.0, '-inf', 'inf', 2.5, 'nan'], 'bool': [False, True], 'log': ['-inf', 0.0, 'inf'],
            'nonneg': [0.0, 1.0, 'inf', 2.5], 'where': [0.0, 'inf']}
ELEM = {'num': ('viterbi', torch.float32), 'bool': ('bool', torch.bool), 'log': ('log', torch.float32),
        'nonneg': ('real', torch.float32)}


class B6(SymBackend):
    def __init__(self):
        super().__init__('viterbi', torch.float32)

    def tensor_dt(self, flat, shape, dt):
        return torch.Tensor._new(list(flat), tuple(shape), dt)

    def dtype_of(self, kind):
        return ELEM[kind][1]

    @staticmethod
    def is_unmodelled(e):
        return isinstance(e, sx.Unmodelled)

    @staticmethod
    def pylist(x):
        return [x]


def prim(x):
    return isinstance(x, (str, int, float, bool, list, tuple)) or x is None


def nan_eq(a, b):
    if isinstance(a, (list, tuple)) and isinstance(b, (list, tuple)):
        return len(a) == len(b) and all(nan_eq(x, y) for x, y in zip(a, b))
    if isinstance(a, float) and isinstance(b, float) and math.isnan(a) and math.isnan(b):
        return True
    return a == b


def claims_of(items):
    out = []
    for name, lhs, rhs in items:
        if len(lhs) != len(rhs):
            out.append((False, name))
        elif all(prim(a) and prim(b) for a, b in zip(lhs, rhs)):
            out.append((all(nan_eq(a, b) for a, b in zip(lhs, rhs)), name))
        else:
            out.append((TL.all_same(lhs, rhs), name))
    return out


def hash_name(name):
    return sum(ord(c) * (i + 1) for i, c in enumerate(name))


def applicable(op, ndim):
    return op.get('mindim', 0) <= ndim <= op.get('maxdim', 99)


def cases(tier, seed):
    rng = random.Random(seed)
    T = torch
    ops = c06_ops.table(T)
    shapes = [(2,), (3,), (2, 2), (2, 3), ()] if tier == 'quick' else [(), (2,), (3,), (4,), (1,), (2, 2), (2, 3), (3, 2), (4, 2), (2, 1), (2, 2, 2), (6,)]
    ucap, bcap = (5, 8) if tier == 'quick' else (10, 24)
    cs = []
    for shape in shapes:
        tts = patterns.type_tuples(shape, depth=1)
        if len(tts) > (4 if tier == 'quick' else 12):
            tts = tts[:1] + rng.sample(tts[1:], (3 if tier == 'quick' else 11))
        for types in tts:
            rs = patterns.typed_recipes(types, max_phys=6 if tier == 'quick' else 8, layouts=('contig', 'expand', 'perm'))
            if not rs:
                continue
            tdesc = [patterns.depict_type(t) for t in types]
            rs_all = rs
            for op in ops:
                if not applicable(op, len(shape)):
                    continue
                if op.get('composed') and hash_name(op['name']) % (6 if tier == 'quick' else 2):
                    continue        # quick: every sixth composition, thorough: every second
                kind = op['kind']
                rs = rs_all
                if op['inplace'] and not op.get('replaces_storage'):
                    # torch itself refuses in-place writes to a self-overlapping (stride-0) tensor;
                    # receivers with an expanded physical tensor are outside the claim
                    rs = [r for r in rs_all if not r['layout'].startswith('expand')]
                    if not rs:
                        rs = rs_all
                        continue
                if op.get('mutates_self'):
                    rs = [r for r in rs if not r['layout'].startswith('expand')]
                    if not rs:
                        continue
                if op['n'] == 1:
                    sel = rs if len(rs) <= ucap else rs[:1] + rng.sample(rs[1:], ucap - 1)
                    for r in sel:
                        ds = DEFAULTS[kind]
                        if tier == 'quick' and len(ds) > 3:
                            ds = rng.sample(ds, 3)
                        for d in ds:
                            cs.append({'op': op['name'], 'types': tdesc, 'operands': [{'recipe': r, 'default': d, 'elem': kind}]})
                elif op['n'] == 2:
                    pairs = list(itertools.product(rs, rs_all))
                    if len(pairs) > bcap:
                        keep = pairs[:1]
                        if op.get('replaces_storage'):
                            # copy_ re-uses the destination's storage only if it is dense in some order and as large as the
                            # source: pair every non-contiguous destination with sources of the same physical size
                            keep += [(a, b) for a, b in pairs if not a['layout'].startswith('contig')
                                     and math.prod(a['psizes']) == math.prod(b['psizes'])][:10]
                        pairs = keep + rng.sample(pairs[1:], bcap - 1)
                    if op.get('mutates_other'):
                        pairs = [(a, b) for a, b in pairs if not b['layout'].startswith('expand')]
                    for r1, r2 in pairs:
                        dps = list(itertools.product(DEFAULTS[kind], DEFAULTS[kind]))
                        if op.get('same_default'):
                            dps = [(d, d) for d in DEFAULTS[kind] if not (op.get('no_nan_default') and d == 'nan')]
                        dps = rng.sample(dps, min(len(dps), 3 if tier == 'quick' else 8))
                        for d1, d2 in dps:
                            cs.append({'op': op['name'], 'types': tdesc,
                                       'operands': [{'recipe': r1, 'default': d1, 'elem': kind}, {'recipe': r2, 'default': d2, 'elem': kind}]})
                else:   # where(t, c, u)
                    rs = rs_all
                    trip = list(itertools.product(rs, rs, rs))
                    trip = trip[:1] + rng.sample(trip[1:], min(len(trip) - 1, bcap))
                    for r1, rc, r2 in trip:
                        for d1, dc, d2 in rng.sample(list(itertools.product([0.0, 'inf', 2.5], [False, True], [0.0, 1.0, 'nan'])), 3):
                            cs.append({'op': 'where', 'types': tdesc,
                                       'operands': [{'recipe': r1, 'default': d1, 'elem': 'num'}, {'recipe': rc, 'default': dc, 'elem': 'bool'},
                                                    {'recipe': r2, 'default': d2, 'elem': 'num'}]})
            # where with a broadcast condition: fewer dimensions than t and u (and, for rank 2, a size-1 leading dimension)
            if len(shape) >= 1:
                rcs = patterns.typed_recipes(types[1:], max_phys=6, layouts=('contig', 'expand')) if len(shape) > 1 else [{'psizes': [], 'vaxes': [], 'layout': 'contig'}]
                if len(shape) > 1:
                    rcs = rcs + patterns.typed_recipes([['n', 1]] + list(types[1:]), max_phys=6, layouts=('contig',))[:3]
                trip = list(itertools.product(rs_all, rcs, rs_all))
                trip = trip[:2] + rng.sample(trip[2:], min(max(len(trip) - 2, 0), bcap))
                for r1, rc, r2 in trip:
                    for d1, dc, d2 in rng.sample(list(itertools.product([0.0, 'inf', 2.5], [False, True], [0.0, 1.0, 'nan'])), 3):
                        cs.append({'op': 'where', 'types': tdesc, 'broadcast_condition': True,
                                   'operands': [{'recipe': r1, 'default': d1, 'elem': 'num'}, {'recipe': rc, 'default': dc, 'elem': 'bool'},
                                                {'recipe': r2, 'default': d2, 'elem': 'num'}]})
            # reshape / view
            rs = rs_all
            sel = rs if len(rs) <= ucap else rs[:1] + rng.sample(rs[1:], ucap - 1)
            for r in sel:
                for target, must in c06_ops.reshape_targets(shape):
                    cs.append({'op': 'reshape', 'types': tdesc, 'target': list(target), 'must_succeed': must,
                               'operands': [{'recipe': r, 'default': rng.choice([0.0, 'inf', 'nan']), 'elem': 'num'}]})
    return cs


OPS = None


def run_case(col, case):
    global OPS
    if OPS is None:
        OPS = {o['name']: o for o in c06_ops.table(torch)}
        R.install_invariant_hook(indices)
    B = B6()
    opn = case['op']
    op = OPS.get(opn, {'kind': 'num'})
    nonlinear = op.get('nonlinear', False)
    concrete = op.get('concrete', False)
    V = symvals.Vars()
    elems = []
    haslog = any(o['elem'] == 'log' for o in case['operands'])
    sx.LOG_MODE[0] = haslog
    sx.FORK[0] = False
    sx.ABSTRACT[0] = False
    for k, o in enumerate(case['operands']):
        ek = ELEM[o['elem']][0]
        n = patterns.nelems(o['recipe'])
        if concrete:
            row = [float(1.5 + 2 * k + 0.25 * i) for i in range(n)]
        else:
            cls = 'T'
            if nonlinear and ek in ('viterbi',):
                cls = 'F'
            if ek == 'log' and nonlinear:
                cls = 'P'
            row = [V.elem(f'a{k}_{i}', ek, cls) for i in range(n)]
        elems.append(row)
    feats = {'op': opn, 'opbase': opn.split('[')[0], 'infinite_default': any(str(o['default']) in ('inf', '-inf') for o in case['operands']),
             'defaults': [str(o['default']) for o in case['operands']],
             'layouts': sorted({o['recipe']['layout'].split(':')[0] for o in case['operands']})}
    col.case(repr(case), nontrivial=sum(len(r) for r in elems) > 0,
             sample={'op': opn, 'types': case['types'], 'operands': [patterns.depict(o['recipe']) + f" default={o['default']}" for o in case['operands']]})

    def body():
        items = R.run_reshape(B, case, elems) if opn == 'reshape' else R.run(B, case, elems)
        return claims_of(items)

    def make_replay(vals, name):
        d = dict(case)
        d['values'] = TL.jsonable(vals)
        d['claim'] = name
        d['concrete_elems'] = concrete
        return d
    TL.explore(col, V, body, feats, make_replay, label=f'{opn}', timeout_ms=30000)


def shard(i, n, tier, seed):
    col = lib.Collector()
    cs = cases(tier, seed)
    mine = cs[i::n]
    with lib.Functions() as fns:
        for c in mine[:40]:
            run_case(col, c)
    col.functions |= fns.names
    for c in mine[40:]:
        run_case(col, c)
    return col.result(symx.STATS)


def main():
    a = common.args()
    if a.replay:
        common.do_replay(PID, a.replay)
    t0 = time.time()
    merged = lib.merge(lib.run_pool('c06', a.tier, a.seed))
    nops = len(c06_ops.table(torch))
    code = lib.finish(
        PID, a.tier, a.seed, 'other', merged, t0,
        rule='case = (operation from a table of %d PatternedTensor operations incl. in-place forms, scalar variants, reductions, structural ops, reshape/view targets; '
             'index types per dimension; one well-typed pattern + default per operand). Patterns: all instances of the index types (dense, shared/diagonal axes, products, sum injections) '
             'x storage layout (contiguous, permuted, stride-0). Defaults from {0,1,-inf,inf,2.5,nan,True,False}. All physical elements symbolic (tagged: finite, +inf, -inf). '
             'distinct = distinct case' % nops,
        explanation='Each operation is executed by the real PatternedTensor code on the z3-valued tensor model; the same torch operation is applied by the model\'s dense kernels to the '
                    'tensors obtained from the *independent* denotation of the operands (oracles/denote.py). Per cell the solver decides code == reference for all element values; shape, dtype, '
                    'receiver identity for in-place forms, unchanged operands and the representation invariant of every PatternedTensor constructed inside the library '
                    '(harness-side __post_init__ wrapper: sizes agree, paxes distinct = free axes, index map injective) are checked on every path.',
        bounds={'shapes': 'quick (),(2,),(3,),(2,2),(2,3); thorough up to rank 3 / numel 8', 'physical_elements': '<=6 quick / <=8 thorough',
                'type_depth': 1, 'compositions': 'two-step compositions: 14 first operations x 21 second operations on num tensors (every sixth in quick, every second in thorough)'},
        assumptions=['finite floats are exact reals', 'dense reference kernels are the model\'s own (validated against torch by running the repository test-suite on the model and by replay)',
                     'exp/expm1/logaddexp/log_softmax use log-domain elements, log/log1p non-negative elements (representation by exponential)',
                     'tolist/len use concrete element values (float() is a C boundary)'],
        allowed_unmodelled=['exp of concrete log-domain value'],
        regimes=['T', 'F(nonlinear ops)'], technique='SMT equivalence of patterned vs dense execution on a z3-valued tensor model')
    sys.exit(code)


if __name__ == '__main__':
    main()
