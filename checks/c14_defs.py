"""part (4) of C14, shared with the replayer (no solver imports)"""
import json
import math
from gen import grammars


def fgg_roundtrip(fggs, torch, spec, patterned):
    shapes = grammars.weight_shapes(spec)
    ws = {}
    for name, shape in shapes.items():
        n = math.prod(shape)
        vals = [0.5 + i for i in range(n)]
        if n:
            vals[-1] = math.inf
        t = torch.tensor(vals, dtype=torch.get_default_dtype()).reshape(tuple(shape)) if shape else torch.tensor(vals[0] if vals else 1.0)
        if patterned and len(shape) == 2 and shape[0] == shape[1]:
            k = fggs.indices.PhysicalAxis(shape[0]) if hasattr(fggs, 'indices') else None
            from fggs.indices import PhysicalAxis, PatternedTensor
            k = PhysicalAxis(shape[0])
            t = PatternedTensor(torch.tensor([1.5 + i for i in range(shape[0])]), (k,), (k, k), 0.25)
        ws[name] = t
    g = grammars.build_fgg(spec, fggs, ws, explicit_ids=False)
    p = []
    try:
        j = fggs.fgg_to_json(g)
        s = json.dumps(j)
    except Exception as e:       # noqa
        return [f'fgg_to_json/json.dumps failed: {type(e).__name__}: {e}']
    g2 = fggs.json_to_fgg(json.loads(s))
    if set(g2.domains) != set(g.domains) or any(g.domains[k] != g2.domains[k] for k in g.domains):
        p.append('domains differ after the round trip')
    if set(g2.factors) != set(g.factors):
        p.append('factor names differ after the round trip')
    else:
        for k in g.factors:
            a, b = g.factors[k].weights.to_dense(), g2.factors[k].weights.to_dense()
            if a.shape != b.shape or not torch.equal(a.to(b.dtype), b):
                p.append(f'weights of factor {k} differ after the round trip')
    if g2.start != g.start or len(g2.all_rules()) != len(g.all_rules()):
        p.append('grammar differs after the round trip')
    if not p:
        z1, z2 = fggs.sum_product(g).to_dense(), fggs.sum_product(g2).to_dense()
        if z1.shape != z2.shape or not torch.allclose(z1.nan_to_num(posinf=1e30), z2.nan_to_num(posinf=1e30)):
            p.append('sum_product differs after the round trip')
    return p


def weights_json_roundtrip(fggs, w, cvals):
    """json_to_weights(spec) -> weights_to_json must be the nested list of the tensor the specification describes"""
    import itertools
    from oracles import c14_run as R
    from fggs.factors import weights_to_json
    pyd = lambda x: {'inf': math.inf, '-inf': -math.inf}.get(x, x) if isinstance(x, str) else x
    j = {'physical': R.nest(cvals, w['pshape'])}
    for key in ('expand', 'vaxes'):
        if key in w:
            j[key] = w[key]
    j['default'] = pyd(w.get('default', 0.))
    t = fggs.json_to_weights(j)
    shape, cells, default = R.described_tensor(w, cvals)
    want = R.nest([cells.get(ix, pyd(default)) for ix in itertools.product(*[range(m) for m in shape])], list(shape)) if shape else cells.get((), pyd(default))
    try:
        got = weights_to_json(t)
        json.dumps(got)
    except Exception as e:      # noqa
        return [f'weights_to_json failed: {type(e).__name__}: {e}']
    if got != want:
        return [f'weights_to_json gives {got}, the specification describes {want}']
    return []
