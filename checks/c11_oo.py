"""child of C11: re-runs a subset of the C01 / C07 / C03 / C06 / C13 harnesses in THIS interpreter (started with -O or -OO:
assert statements and `if __debug__:` blocks of fggs are compiled away) and prints the findings as JSON."""
import json
import random
import sys
import common          # noqa
import boot            # noqa
import lib
import symx


def main():
    tier, seed = sys.argv[1], int(sys.argv[2])
    shard_i, nshards = int(sys.argv[3]), int(sys.argv[4])
    assert_active = False
    try:
        assert False
    except AssertionError:
        assert_active = True
    out = {'assert_active': assert_active, 'debug': __debug__, 'results': {}}
    n = {'quick': 40, 'thorough': 400}[tier]
    for modname in ('c01', 'c07', 'c03', 'c06', 'c13'):
        mod = __import__(modname)
        cs = mod.cases(tier, seed)
        rng = random.Random(seed + 11)
        sel = cs[:10] + rng.sample(cs, min(n, len(cs)))
        sel = sel[shard_i::nshards]
        col = lib.Collector()
        symx.STATS.__init__()
        for c in sel:
            mod.run_case(col, c)
        r = col.result(symx.STATS)
        out['results'][modname] = {'evaluations': r['evaluations'], 'violations': r['violations'][:20], 'inconclusive': r['inconclusive'][:5],
                                   'unmodelled': len(r['unmodelled']), 'stats': r['stats'], 'nontrivial': r['nontrivial'][:2000]}
    print('C11OO ' + json.dumps(out, default=str))


if __name__ == '__main__':
    main()
