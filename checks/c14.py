"""C14 -- JSON serialisation round-trips grammars and weights."""
import itertools
import json
import math
import random
import sys
import time
import common
import boot          # noqa
import torch
import fggs
import z3
import sx
import symx
import lib
import symvals
import tensorlib as TL
from oracles import c14_run as R, denote
from gen import grammars
from c02 import B2
from c06 import claims_of
import c14_defs

PID = 'C14'
NIDS = len(R.IDPOOL)

WSPECS = [
    {'pshape': [2]}, {'pshape': [2, 2]}, {'pshape': []},
    {'pshape': [2], 'vaxes': [0, 0]},
    {'pshape': [2], 'vaxes': [0, 0], 'default': 'inf'},
    {'pshape': [2], 'vaxes': [{'before': 1, 'term': 0, 'after': 0}]},
    {'pshape': [2], 'vaxes': [{'before': 0, 'term': 0, 'after': 2}, 0], 'default': 1.0},
    {'pshape': [2, 3], 'vaxes': [[0, 1]]},
    {'pshape': [2, 3], 'vaxes': [[0, 1], 0, 1]},
    {'pshape': [2, 3], 'vaxes': [1, 0]},
    {'pshape': [2], 'expand': [3], 'vaxes': [0, 1]},
    {'pshape': [2], 'expand': [3], 'vaxes': [1, 0]},
    {'pshape': [2], 'expand': [2], 'vaxes': [[0, 1]]},
    {'pshape': [], 'expand': [3], 'vaxes': [0, 0], 'default': '-inf'},
    {'pshape': [2], 'vaxes': [{'before': 1, 'term': [0, 0], 'after': 1}]},
    {'pshape': [2, 2], 'vaxes': [{'before': 0, 'term': [0, 1], 'after': 1}, 1]},
    # slices along the first axis are themselves patterned (unbacked positions inside every slice): dense first axis + diagonal tail,
    # dense first axis + sum-injected tail, first axis shared with the tail
    {'pshape': [2, 3], 'vaxes': [0, 1, 1], 'default': 1.0},
    {'pshape': [2, 2], 'vaxes': [0, {'before': 1, 'term': 1, 'after': 0}], 'default': '-inf'},
    {'pshape': [2, 2], 'vaxes': [1, 0, {'before': 0, 'term': 1, 'after': 1}], 'default': 2.5},
    # permutations of equal-size axes: the physical shape equals the virtual shape although the tensor is not stored in virtual order
    {'pshape': [2, 2], 'vaxes': [1, 0]},
    {'pshape': [2, 3, 2], 'vaxes': [2, 1, 0]},
    {'pshape': [2, 2], 'expand': [2], 'vaxes': [2, 0, 1]},
]


def pyd(x):
    return {'inf': math.inf, '-inf': -math.inf}.get(x, x) if isinstance(x, str) else x


def shard(shard_i, nshards, tier, seed):
    col = lib.Collector()
    sx.LOG_MODE[0] = False
    sx.FORK[0] = False
    sx.ABSTRACT[0] = False
    with lib.Functions() as fns:
        # ---- (1) HRG round trip: ids (explicit from a pool built around str-ordering, or implicit = solver-chosen distinct ints) and structure symbolic
        nn = 2 if tier == 'quick' else 3
        NI = [z3.Int(f'nid{i}') for i in range(nn)]          # 0..NIDS-1 explicit, NIDS = implicit
        EI = [z3.Int(f'eid{i}') for i in range(2)]
        IM = [z3.Int(f'imp{i}') for i in range(nn + 2)]       # values of the id() stub
        impool = [9, 10, 100] if tier == 'quick' else [5, 9, 10, 100, 11]
        ATT = [z3.Int(f'att{i}') for i in range(2)]
        EXT = z3.Int('ext')
        extopts = [[], [0], [nn - 1], [nn - 1, 0]]
        combos = [(a, b) for a in range(NIDS + 1) for b in range(NIDS + 1)]
        for ci, (a0, b0) in enumerate(combos):
            if ci % nshards != shard_i:
                continue
            ass = [NI[0] == a0, EI[0] == b0] + [z3.And(v >= 0, v <= NIDS) for v in NI[1:] + EI[1:]] + [z3.And(v >= 0, v < len(impool)) for v in IM] + \
                  [z3.And(v >= 0, v < nn) for v in ATT] + [z3.And(EXT >= 0, EXT < len(extopts))]
            eng = symx.Engine(assumptions=ass)

            def body():
                nids = [symx.choose(v, 0, NIDS + 1) if k == 0 else symx.choose(v, 0, NIDS + 1, free=True) for k, v in enumerate(NI)]
                eids = [symx.choose(EI[0], 0, NIDS + 1), symx.choose(EI[1], 0, NIDS + 1, free=True)]
                ex = [i for i in nids if i < NIDS]
                if len(set(ex)) != len(ex) or (eids[0] < NIDS and eids[0] == eids[1]):
                    return None      # duplicate explicit ids: construction is rejected by Graph (C16)
                nimp = sum(1 for i in nids + eids if i == NIDS)
                imps = []
                for k in range(nimp):
                    v = symx.choose(IM[k], 0, len(impool), free=True)
                    imps.append(impool[v])
                if len(set(imps)) != len(imps):
                    return None      # id() never returns the same value for two live objects
                att = [symx.choose(v, 0, nn, free=True) for v in ATT]
                ext = extopts[symx.choose(EXT, 0, len(extopts), free=True)]
                spec = {'rules': [{'nodes': [['L', None if i == NIDS else i] for i in nids],
                                   'edges': [['t', [att[0], att[1]], 0, None if eids[0] == NIDS else eids[0]], ['u', [att[1]], 0, None if eids[1] == NIDS else eids[1]]],
                                   'ext': ext}]}
                return spec, imps, R.check_hrg_roundtrip(fggs, spec, imps + [1000, 1001, 1002, 1003, 1004, 1005])
            for p in eng.run(body):
                if p.exc is not None:
                    col.violation('hrg', {'part': 'hrg_roundtrip', 'exception': type(p.exc).__name__}, {'part': 'hrg', 'spec': None, 'imps': []}, note=repr(p.exc))
                    continue
                if p.value is None:
                    continue
                spec, imps, problems = p.value
                col.case(('hrg', json.dumps(spec), tuple(imps)), nontrivial=True, sample={'spec': spec, 'implicit_id_values': imps})
                col.check(not problems)
                if problems:
                    col.violation('hrg', {'part': 'hrg_roundtrip', 'problem': ' '.join(problems[0].split()[:6])}, {'part': 'hrg', 'spec': spec, 'imps': imps}, note=problems[0][:400])
        # ---- (2) out-of-range node numbers
        if shard_i == 0:
            N, A, X = z3.Int('n'), z3.Int('a'), z3.Int('x')
            eng = symx.Engine(assumptions=[N >= 1, N <= 2, A >= -3, A <= 3, X >= -3, X <= 3])

            def body():
                n = symx.choose(N, 1, 3, free=True)
                a = symx.choose(A, -3, 4, free=True)
                x = symx.choose(X, -3, 4, free=True)
                return n, a, x, R.check_reject(fggs, n, [a], [x])
            for p in eng.run(body):
                n, a, x, problems = p.value
                col.case(('reject', n, a, x), nontrivial=True, sample={'nodes': n, 'attachment': a, 'external': x})
                col.check(not problems)
                if problems:
                    col.violation('reject', {'part': 'node_numbers', 'negative': a < 0 or x < 0}, {'part': 'reject', 'n': n, 'att': [a], 'ext': [x]}, note=problems[0])
        # ---- (3) json_to_weights on patterned specifications, physical entries symbolic
        for k, w in enumerate(WSPECS):
            if k % nshards != shard_i:
                continue
            V = symvals.Vars()
            n = max(1, math.prod(w['pshape']))
            elems = [V.elem(f'p{i}', 'viterbi', 'F') for i in range(n)]
            col.case(('weights', k), nontrivial=True, sample=w)

            def body():
                j = {'physical': R.nest(elems, w['pshape'])}
                for key in ('expand', 'vaxes'):
                    if key in w:
                        j[key] = w[key]
                if 'default' in w:
                    j['default'] = pyd(w['default'])
                t = fggs.json_to_weights(j)
                shape, cells, default = R.described_tensor(w, elems)
                gs, gc, gd, problems = denote.denote(t)
                items = [('representation', problems[:1] or ['ok'], ['ok']), ('shape', list(gs), list(shape)), ('default', [gd], [pyd(default)])]
                if tuple(gs) == tuple(shape):
                    idx = list(itertools.product(*[range(m) for m in shape]))
                    items.append(('cells', [gc.get(i, gd) for i in idx], [cells.get(i, pyd(default)) for i in idx]))
                return claims_of(items)

            def make_replay(vals, name):
                return {'part': 'weights', 'wspec': w, 'values': TL.jsonable(vals), 'claim': name}
            TL.explore(col, V, body, {'part': 'json_to_weights'}, make_replay, label='json_to_weights')
            # (3b) and back: weights_to_json of that tensor is the nested list of the described dense tensor (concrete sentinels, float() is a C boundary)
            cvals = [float(1.5 + i) for i in range(n)]
            for dflt in (w.get('default', 0.), 1.0, '-inf'):
                w2 = dict(w)
                w2['default'] = dflt
                problems = c14_defs.weights_json_roundtrip(fggs, w2, cvals)
                col.case(('weights_to_json', k, str(dflt)), nontrivial=True, sample={'spec': w2})
                col.check(not problems)
                if problems:
                    col.violation('weights_to_json', {'part': 'weights_to_json'}, {'part': 'weights_to_json', 'wspec': w2, 'cvals': cvals}, note=problems[0])
        # ---- (4) fgg_to_json / json_to_fgg on whole FGGs with concrete sentinel weights (float() is a C boundary)
        rng = random.Random(seed)
        fam = grammars.feature_set(3) + rng.sample(grammars.single_rule_family(3), 40)
        for k, spec in enumerate(fam):
            if k % nshards != shard_i:
                continue
            problems = fgg_roundtrip(spec, patterned=(k % 2 == 1))
            col.case(('fgg', k), nontrivial=True, sample={'rules': spec['rules']})
            col.check(not problems)
            if problems:
                col.violation('fgg', {'part': 'fgg_roundtrip', 'problem': ' '.join(problems[0].split()[:5])}, {'part': 'fgg', 'spec': spec, 'patterned': k % 2 == 1}, note=problems[0])
    col.functions |= fns.names
    return col.result(symx.STATS)


def fgg_roundtrip(spec, patterned):
    from c14_defs import fgg_roundtrip as f
    return f(fggs, torch, spec, patterned)


def main():
    a = common.args()
    if a.replay:
        common.do_replay(PID, a.replay)
    t0 = time.time()
    merged = lib.merge(lib.run_sharded('c14', 'shard', a.tier, a.seed))
    code = lib.finish(
        PID, a.tier, a.seed, 'other', merged, t0,
        rule='(1) HRG round trip: rules with 2 (quick) / 3 nodes and 2 edges whose node/edge ids are solver variables over {a,b,"10","9",A,"" , implicit}; implicit ids come from a stub of id() returning solver-chosen pairwise distinct ints from {5,9,10,100,11} '
             '(so the str-order of implicit vs explicit ids, which fixes the order nodes are written in, is explored); attachments and external lists symbolic. (2) node numbers -3..3 against 1-2 nodes. (3) json_to_weights on %d patterned specifications '
             '(physical rank <=2, expand, vaxes with products/sums/shared axes, defaults) with symbolic physical entries. (4) fgg_to_json/json_to_fgg on the C01 feature set + 40 single-rule grammars with concrete sentinel weights incl. inf, dense and patterned.' % len(WSPECS),
        explanation='(1)(2) every choice is explored by the symbolic executor; round trip must reproduce start, labels, rules in order, each rule up to renaming of implicit ids (node correspondence by written position), explicit ids preserved, second round trip verbatim when all ids '
                    'are explicit, json.dumps accepts, out-of-range numbers raise ValueError. (3) the solver decides, per cell, that the PatternedTensor returned denotes the tensor the specification describes (independent evaluator of the vaxes language). '
                    '(4) is enumeration with concrete values (labelled as such): domains, factors (dense), sum_product equal after the round trip.',
        bounds={'nodes': 2 if a.tier == 'quick' else 3, 'edges': 2, 'weight_specs': len(WSPECS)},
        assumptions=['id() stub: arbitrary pairwise distinct ints (id reuse after an object dies is not modelled)', 'part (4) uses concrete sentinel weights because weights_to_json calls float() on every cell'],
        exhaustive=True, technique='bounded symbolic execution (symbolic ids incl. an id() stub) + SMT denotation equality for weight specifications')
    sys.exit(code)


if __name__ == '__main__':
    main()
