"""C07 -- patterned einsum equals the semiring einsum of the dense operands."""
import itertools
import math
import sys
import time
import common
import boot      # noqa
import torch
import fggs
import z3
import sx
import symx
import lib
import symvals
import tensorlib as TL
from fggs import indices
from oracles import semiring as OS, c07_run as R
from gen import patterns
from c08 import SymBackend

PID = 'C07'
KINDS = ['real', 'log', 'viterbi', 'bool']

SIGS_QUICK = ['->', 'i->i', 'i->', 'ij->ij', 'ij->ji', 'ij->i', 'ij->j', 'ij->',
              'i,i->i', 'i,i->', 'i,j->ij', 'i,j->ji', 'i,j->i', 'i,j->',
              'ij,j->i', 'ij,j->ij', 'ij,j->j', 'ij,j->', 'ij,i->j',
              'ij,jk->ik', 'ij,jk->', 'ij,ij->ij', 'ij,ji->i', 'ij,ij->', 'ij,jk->k', 'ij,jk->ijk',
              'i,i,i->i', 'ij,j,j->i', 'i,j,k->ik',
              # an index repeated inside one operand (co-indexed axes of one tensor are unified)
              'ii->i', 'ii->', 'iij,j->i', 'ii,i->i', 'i,j,k->jik', 'i,j,k->kji']
SIGS_THOROUGH = SIGS_QUICK + ['ij,jk,k->i', 'ij,jk,kl->il', 'ijk->ik', 'ijk,k->ij', 'ijk,jk->i', 'ij,jk,ki->', 'i,ij,j->',
                              'ijk->kji', 'ij,kl->ijkl', 'ij,jk,kl->', 'ijk,ijk->', 'ij,j,i->ij']


class B7(SymBackend):
    @staticmethod
    def all_eq(ps, six):
        return sx.And(*[sx.eq(p, v) for p, v in zip(ps, six)])

    @staticmethod
    def same(a, b):
        return sx.same(a, b)


def size_maps(sig, tier):
    letters = sorted(set(c for c in sig if c.isalpha()))
    maps = [{c: 2 for c in letters}]
    if letters:
        maps.append({c: (3 if k == 0 else 1 if k == len(letters) - 1 and k > 0 else 2) for k, c in enumerate(letters)})
        if tier == 'thorough':
            maps.append({c: (1 if k == len(letters) - 1 else 2) for k, c in enumerate(letters)})
            maps.append({c: (0 if k == 0 else 2) for k, c in enumerate(letters)})
            maps.append({c: (4 if k == len(letters) - 1 else 2) for k, c in enumerate(letters)})
            maps.append({c: 3 for c in letters})
    else:
        maps = [{}]
    return maps


def cases(tier, seed):
    import random
    rng = random.Random(seed)
    cs = []
    sigs = SIGS_QUICK if tier == 'quick' else SIGS_THOROUGH
    cap = 12 if tier == 'quick' else 60
    tcap = 4 if tier == 'quick' else 8
    for sig in sigs:
        ins, out = R.parse(sig)
        letters = sorted(set(c for c in sig if c.isalpha()))
        for smi, sizes in enumerate(size_maps(sig, tier)):
            # index type of every letter: all assignments (capped by a seeded sample; the all-atomic one always kept)
            tchoices = [patterns.types_for(sizes[c], 1) for c in letters]
            tassign = [dict(zip(letters, combo)) for combo in itertools.product(*tchoices)] if letters else [{}]
            if len(tassign) > tcap:
                tassign = tassign[:1] + rng.sample(tassign[1:], tcap - 1)
            for types in tassign:
                per_op = []
                for x in ins:
                    rs = patterns.typed_recipes([types[c] for c in x], max_phys=6 if tier == 'quick' else 8,
                                                layouts=('contig', 'expand', 'perm'))
                    specs = [{'recipe': r, 'default': 'zero'} for r in rs]
                    # non-zero defaults force densification (default_to): a few of them
                    specs += [{'recipe': r, 'default': d} for r in rs[:2] for d in ('one', 'top')]
                    per_op.append(specs)
                combos = list(itertools.product(*per_op)) if per_op else [()]
                if len(combos) > cap:
                    # always kept: all-dense, all operands stride-0, all operands with a shared (diagonal) axis if any
                    keep = [combos[0]]
                    for pred in (lambda o: o['recipe']['layout'].startswith('expand') and o['default'] == 'zero',
                                 lambda o: patterns.features(o['recipe'])['shared_axis'] and o['default'] == 'zero',
                                 lambda o: o['recipe']['layout'] == 'perm' and o['default'] == 'zero'):
                        pick = []
                        for specs in per_op:
                            c = [o for o in specs if pred(o)]
                            pick.append(c[0] if c else specs[0])
                        if tuple(pick) not in keep:
                            keep.append(tuple(pick))
                    combos = keep + rng.sample(combos[1:], max(1, cap - len(keep)))
                tdesc = {c: patterns.depict_type(t) for c, t in types.items()}
                for ops in combos:
                    base = {'sig': sig, 'sizes': sizes, 'types': tdesc, 'operands': list(ops)}
                    for kind in KINDS:
                        for rg in ((False, True) if kind in ('real', 'log') else (False,)):
                            cs.append(dict(base, semiring=kind, requires_grad=rg, entry='einsum'))
                        if kind == 'viterbi':
                            cs.append(dict(base, semiring=kind, requires_grad=False, entry='viterbi'))
                    if sig == 'ij,j->i':
                        for kind in KINDS:
                            cs.append(dict(base, semiring=kind, requires_grad=False, entry='mv'))
                    if sig == 'ij,jk->ik':
                        for kind in KINDS:
                            cs.append(dict(base, semiring=kind, requires_grad=False, entry='mm'))
    return cs


def regimes_for(kind, nunk, entry='einsum'):
    if entry == 'viterbi':
        # the carrier is split by which infinities occur, so that the known finding about
        # (+inf) + (-inf) in the Viterbi variant is confined to the region that needs both
        return ['T:no_pinf', 'T:pinf_no_ninf', 'T:pinf_and_ninf']
    if kind in ('viterbi', 'bool'):
        return ['T']
    if kind == 'log':       # forking mode: If-free polynomial queries per path
        return ['T'] if nunk <= 2 else ['P', 'S']
    if nunk <= 5:
        return ['T']
    return ['P', 'S']


def run_case(col, case, dt='float32'):
    kind = case['semiring']
    dtype = {'float32': torch.float32, 'float64': torch.float64}[dt]
    sx.LOG_MODE[0] = (kind == 'log')
    sx.FORK[0] = False
    sx.ABSTRACT[0] = kind in ('log', 'real')
    nel = [patterns.nelems(o['recipe']) for o in case['operands']]
    nunk = sum(nel)
    feats = {'semiring': kind, 'entry': case['entry'], 'sig': case['sig'], 'requires_grad': case['requires_grad'],
             'layouts': sorted({o['recipe']['layout'].split(':')[0] for o in case['operands']}),
             'defaults': sorted({o['default'] for o in case['operands']})}
    key = (case['sig'], repr(case['sizes']), repr(case['operands']), kind, case['requires_grad'], case['entry'])
    col.case(key, nontrivial=nunk > 0,
             sample={'sig': case['sig'], 'sizes': case['sizes'], 'semiring': kind, 'entry': case['entry'],
                     'operands': [patterns.depict(o['recipe']) + ' default=' + o['default'] for o in case['operands']]})
    for regime_full in regimes_for(kind, nunk, case['entry']):
        regime, _, region = regime_full.partition(':')
        profiles = [None]
        if regime == 'S':
            # special-class profiles: (infinite position, zero position), None = absent; the rest positive
            pos = list(range(nunk))
            profiles = [(p, q) for p in pos[:4] for q in pos[-4:] if p != q][:8]
            profiles += [(None, q) for q in pos[:3]] + [(p, None) for p in pos[-3:]]
        for prof in profiles:
            V = symvals.Vars()
            elems = []
            c = 0
            for k, n in enumerate(nel):
                row = []
                for i in range(n):
                    if regime == 'S':
                        cls = 'I' if c == prof[0] else 'Z' if c == prof[1] else 'P'
                    else:
                        cls = regime
                    row.append(V.elem(f'a{k}_{i}', kind, cls))
                    c += 1
                elems.append(row)
            if region:
                # which infinities occur among the operand entries (symbolic elements and unbacked defaults)
                def unbacked(o):
                    n = 1
                    for c_ in o['recipe']['vaxes']:
                        n *= patterns.numel(c_, o['recipe']['psizes'])
                    m = 1
                    for x_ in o['recipe']['psizes']:
                        m *= x_
                    return m < n
                dpin = any(o['default'] == 'top' and unbacked(o) for o in case['operands'])
                dnin = any(o['default'] == 'zero' and unbacked(o) for o in case['operands'])
                pin = sx.Or(dpin, *[z3.Bool(f'{n}!pinf') for n, _ in V.items])
                nin = sx.Or(dnin, *[z3.Bool(f'{n}!ninf') for n, _ in V.items])
                cond = {'no_pinf': sx.Not(pin), 'pinf_no_ninf': sx.And(pin, sx.Not(nin)),
                        'pinf_and_ninf': sx.And(pin, nin)}[region]
                if cond is False:
                    continue
                if cond is not True:
                    V.assumptions.append(cond)
            B = B7(kind, dtype)

            def body():
                torch.autograd.reset_tape()
                items = R.run(B, case, elems)
                claims = []
                for it in items:
                    name = it[0]
                    if name == 'argmax_attains':
                        for conds in it[1]:
                            claims.append((sx.Or(*[sx.And(a, b) for a, b in conds]), name))
                    else:
                        claims.append((TL.all_same(it[1], it[2]), name))
                return claims

            def make_replay(vals, name):
                d = dict(case)
                d['dtype'] = dt
                d['values'] = TL.jsonable(vals)
                d['profile'] = prof
                d['regime'] = regime_full
                d['claim'] = name
                return d
            f = dict(feats)
            f['regime'] = regime
            if region:
                f['region'] = region
            TL.explore(col, V, body, f, make_replay, label=f"{case['sig']}/{kind}/{case['entry']}/{regime}", timeout_ms=60000)


def run_indexed(col, case, k):
    run_case(col, case, dt='float64' if k % 5 == 0 else 'float32')


def shard(i, n, tier, seed):
    col = lib.Collector()
    cs = cases(tier, seed)
    mine = cs[i::n]
    with lib.Functions() as fns:
        for c in mine[:6]:
            if c['semiring'] in ('viterbi', 'bool'):
                run_case(col, c)
    col.functions |= fns.names
    for k, c in enumerate(mine):
        dt = 'float64' if k % 5 == 0 else 'float32'
        if c['semiring'] in ('viterbi', 'bool'):
            if k >= 6:
                run_case(col, c, dt=dt)
        else:   # nonlinear real arithmetic: hard per-case limit
            lib.guarded(lambda cc, c=c, dt=dt: run_case(cc, c, dt=dt), col, 120, f"{c['sig']}/{c['semiring']}")
    return col.result(symx.STATS)


def main():
    a = common.args()
    if a.replay:
        common.do_replay(PID, a.replay)
    t0 = time.time()
    merged = lib.merge(lib.run_pool('c07', a.tier, a.seed))
    code = lib.finish(
        PID, a.tier, a.seed, 'other', merged, t0,
        rule='case = (einsum signature, index sizes, one typed sparsity pattern + default per operand, semiring, requires_grad, entry point '
             'einsum/mv/mm/log_viterbi_einsum_forward). Signatures: %d fixed lists up to 4 letters / 3 operands incl. the empty operand list; sizes from {1,2,3} (thorough 0,4); '
             'patterns: every recipe of the family P (dense, diagonal/shared axes, product, sum, stride-0 expanded, permuted storage), all combinations up to a cap per signature '
             '(seeded sample beyond). All physical elements symbolic. distinct = distinct case tuple' % len(SIGS_QUICK if a.tier == 'quick' else SIGS_THOROUGH),
        explanation='indices.einsum / log_viterbi_einsum_forward / mv / mm and the real torch_semiring_einsum package run on the z3-valued tensor model; per output cell the query '
                    '`code != definitional semiring einsum over the independently denoted dense operands` is decided by z3 (Viterbi: plus `the returned pointer selects a term equal to the maximum`).',
        bounds={'letters': 4, 'operands': 3, 'rank': 3, 'physical_elements_per_operand': '<=6 quick / <=8 thorough',
                'combos_per_signature_cap': 24 if a.tier == 'quick' else 120},
        assumptions=['finite floats are exact reals', 'Log semiring in exponential representation; max-shift constants exp(+-FLT_MAX) are boxed uninterpreted constants',
                     'torch.max tie-breaking: first maximal index (the claim accepts any maximiser)',
                     'regimes: T (tagged, all special values) for Viterbi/Bool and for <=6 unknowns; otherwise F (finite incl. zero) and S (profiles with one infinite and one zero element)'],
        regimes=['T', 'F', 'S'], technique='symbolic execution on a z3-valued tensor model; SMT equivalence with the definitional einsum')
    sys.exit(code)


if __name__ == '__main__':
    main()
