"""C17 -- conjunction generates exactly the paired derivations."""
import itertools
import json
import sys
import time
import common
import boot          # noqa
import fggs
import z3
import symx
import lib
from oracles import c17_run as R

PID = 'C17'
TIER = ['quick']
N1 = ['X', 'X,Y', 'W']
N2 = ['Y', 'Z', 'Y,Z']


def candidates(nts, tname, tier, nt2):
    """rule candidates: [lhs, skeleton, {edge id: label}, terminal edges]; nts = arity-1 names, nt2 = the arity-2 name of this grammar"""
    c = [None]
    sk = ['A', 'B', 'C', 'D', 'F', 'G', 'H', 'I'] + (['E'] if tier != 'quick' else [])
    for s in sk:
        S = R.SKEL[s]
        lhss = [nt2] if len(S['ext']) == 2 else (nts[:2] if tier == 'quick' else nts)
        for lhs in lhss:
            ids = list(S['nts'])
            pools = [[nt2] if len(S['nts'][i]) == 2 else nts[:2] for i in ids]
            for labs in itertools.product(*pools):
                for terms in ([], [tname]):
                    c.append([lhs, s, dict(zip(ids, labs)), terms])
    return c


def shard(shard_i, nshards, tier, seed):
    TIER[0] = tier
    col = lib.Collector()
    C1, C2 = candidates(N1, 't1', tier, 'P'), candidates(N2, 't2', tier, 'Q')
    step = 7 if tier == 'quick' else 1
    C1s = C1[::step * 2] if tier == 'quick' else C1[::6]
    C2s = C2[::13] if tier == 'quick' else C2[::8]
    # the second rule of each grammar always may be a rule for the arity-2 nonterminal (so that rules using it have derivations)
    C1s += [c for c in C1 if c and c[1] in ('H', 'I') and c not in C1s]
    C2s += [c for c in C2 if c and c[1] in ('H', 'I') and c not in C2s]
    A = [z3.Int(f'g1r{i}') for i in range(2)]
    Bv = [z3.Int(f'g2r{i}') for i in range(2)]
    V = z3.Int('variant')
    V2 = z3.Int('variant_two_rule_grammars')
    variants = ['plain', 'terminal_conflict', 'same_terminal', 'terminal_named_like_pair', 'extra_nonterminal_named_like_pair',
                'edges_inserted_in_reverse_order', 'terminal_named_like_other_nonterminal']
    mine = [k for k in range(len(C1)) if k % nshards == shard_i]
    with lib.Functions() as fns:
        for a0 in mine:
            rng_ = [z3.And(v >= 0, v < n) for v, n in ((A[1], len(C1s)), (Bv[0], len(C2)), (Bv[1], len(C2s)), (V, len(variants)), (V2, 2))]
            eng = symx.Engine(assumptions=[A[0] == a0] + rng_)

            def body():
                r1 = [C1[symx.choose(A[0], 0, len(C1))], C1s[symx.choose(A[1], 0, len(C1s), free=True)]]
                r2 = [C2[symx.choose(Bv[0], 0, len(C2), free=True)], C2s[symx.choose(Bv[1], 0, len(C2s), free=True)]]
                # label variants are explored on top of every pair of first rules; with two rules per grammar only the plain variant (quick tier)
                if r1[1] is not None or r2[1] is not None:
                    var = 'plain' if TIER[0] == 'quick' else ['plain', 'edges_inserted_in_reverse_order'][symx.choose(V2, 0, 2, free=True)]
                else:
                    var = variants[symx.choose(V, 0, len(variants), free=True)]
                g1 = {'start': 'X', 'rules': [r for r in r1 if r], 'terminals': {'t1': ['L']}}
                g2 = {'start': 'Y', 'rules': [r for r in r2 if r], 'terminals': {'t2': ['L']}}
                if var == 'terminal_conflict':
                    g2['terminals']['t1'] = ['L', 'L']
                elif var == 'same_terminal':
                    g2['terminals']['t1'] = ['L']
                elif var == 'terminal_named_like_pair':
                    g1['terminals']['<X,Y>'] = ['L']
                elif var == 'extra_nonterminal_named_like_pair':
                    g2['extra_nts'] = ['<X,Y,Z>', '<X,Y>']
                elif var == 'edges_inserted_in_reverse_order':
                    g2['reverse_edges'] = True
                elif var == 'terminal_named_like_other_nonterminal':
                    g1['terminals']['Z'] = ['L']          # g2 has a nonterminal Z; input nonterminals never occur in the conjunction
                return g1, g2, R.check(fggs, g1, g2)
            for p in eng.run(body):
                if p.exc is not None:
                    col.violation('conjoin', {'exception': type(p.exc).__name__}, {'g1': None, 'g2': None}, note=repr(p.exc))
                    continue
                g1, g2, problems = p.value
                col.case(json.dumps([g1, g2], sort_keys=True), nontrivial=bool(g1['rules'] and g2['rules']), sample={'g1': g1, 'g2': g2})
                col.check(not problems)
                if problems:
                    col.violation('conjoin', {'problem': ' '.join(problems[0].split()[:6])}, {'g1': g1, 'g2': g2}, note=problems[0][:300])
    col.functions |= fns.names
    return col.result(symx.STATS)


def main():
    a = common.args()
    if a.replay:
        common.do_replay(PID, a.replay)
    t0 = time.time()
    merged = lib.merge(lib.run_sharded('c17', 'shard', a.tier, a.seed))
    code = lib.finish(
        PID, a.tier, a.seed, 'other', merged, t0,
        rule='pairs of HRGs with <=2 rules each over shared node/edge ids: rule = (lhs, skeleton, labels of its nonterminal edges, terminal edges); skeletons A..E differ in node set, attachment of the shared nonterminal edge and number of nonterminal edges; '
             'nonterminal names chosen to provoke pairing clashes (X + "Y,Z" vs "X,Y" + Z, existing labels named <X,Y> / <X,Y,Z>); variants: plain, conflicting terminal types, shared identical terminal, terminal named like a pair, extra nonterminal named like a pair. '
             'All choices are solver variables.',
        explanation='conjoin_hrgs runs for every pair; the result must contain exactly one rule per conjoinable rule pair (conjoinability by the definition: same nodes, same externals, same nonterminal edges by id and attachment), carrying nodes, externals, one paired '
                    'nonterminal edge per shared edge and the terminal edges of both; the naming of nonterminal pairs must be a function, injective, and disjoint from existing labels; start = pair of starts; terminal conflicts raise ValueError; arguments untouched. '
                    'With rule-level exactness and an injective naming, the one-to-one correspondence of derivations follows by induction on derivation depth (argument, not executed).',
        bounds={'rules_per_grammar': 2, 'skeletons': 4 if a.tier == 'quick' else 5},
        assumptions=['terminal edge ids of paired rules are disjoint; all ids explicit'],
        exhaustive=True, technique='bounded symbolic execution (symbolic grammar structure) + definitional oracle')
    sys.exit(code)


if __name__ == '__main__':
    main()
