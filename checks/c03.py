"""C03 -- gradients of the sum-product are the true derivatives."""
import itertools
import json
import math
import random
import sys
import time
import common
import boot      # noqa
import torch
import fggs
import z3
import sx
import symx
import lib
import symvals
import tensorlib as TL
from oracles import c03_run as R
from gen import grammars
from c02 import B2

PID = 'C03'


class B3(B2):
    sadd = staticmethod(sx.add)
    smul = staticmethod(sx.mul)
    sdiv = staticmethod(sx.div)

    @staticmethod
    def lin(x):
        return x.e if isinstance(x, sx.LogV) else x

    @staticmethod
    def assume_positive(zs):
        for z in zs:
            symx.ENGINE.assume(sx.BoolZ(sx.gt(z, 0.0)))

    ssub = staticmethod(sx.sub)
    eq = staticmethod(sx.eq)
    lt = staticmethod(sx.lt)

    @staticmethod
    def assume_all(conds):
        for c in conds:
            symx.ENGINE.assume(sx.BoolZ(c))

    @staticmethod
    def reset_tape():
        torch.autograd.reset_tape()

    @staticmethod
    def backward(t, c):
        torch.autograd.backward([t], [c])


def cases(tier, seed=0):
    rng = random.Random(seed)
    fam = grammars.feature_set(3) + grammars.feature_set(1)
    A = grammars.single_rule_family(3)
    fam += rng.sample(A, 150 if tier == 'quick' else 800) + grammars.two_level_family(rng, 120 if tier == 'quick' else 800, 3)
    # a nonterminal whose rules have sum-products with different sparsity patterns (a repeated external node = identity pattern, next to dense rules)
    def R(lhs, nodes, edges, ext):
        return {'lhs': lhs, 'nodes': nodes, 'edges': [{'label': l, 'att': a} for l, a in edges], 'ext': ext}
    dom = {'T': 2, 'U': 3}
    mixed = [
        {'start': 'S', 'domains': dom, 'nonterminals': {'S': [], 'X': ['T', 'T']}, 'terminals': {'a': ['T'], 'b': ['T', 'T'], 'c': ['T', 'T']},
         'rules': [R('S', ['T', 'T'], [('X', [0, 1]), ('c', [0, 1])], []), R('X', ['T'], [('a', [0])], [0, 0]), R('X', ['T', 'T'], [('b', [0, 1])], [0, 1])]},
        {'start': 'X', 'domains': dom, 'nonterminals': {'X': ['T', 'T']}, 'terminals': {'a': ['T'], 'b': ['T', 'T']},
         'rules': [R('X', ['T', 'T'], [('b', [0, 1])], [0, 1]), R('X', ['T'], [('a', [0])], [0, 0])]},
        {'start': 'X', 'domains': dom, 'nonterminals': {'X': ['T', 'T']}, 'terminals': {'a': ['T'], 'd': ['T'], 'e': ['T']},
         'rules': [R('X', ['T'], [('a', [0])], [0, 0]), R('X', ['T', 'T'], [('d', [0]), ('e', [1])], [0, 1]), R('X', ['T', 'T'], [('d', [1])], [0, 1])]},
    ]
    fam = mixed + fam
    cs = []
    seen = set()
    for gi, spec in enumerate(fam):
        if grammars.is_recursive(spec):
            continue
        k = json.dumps(spec, sort_keys=True)
        if k in seen:
            continue
        seen.add(k)
        nunk = sum(math.prod(s) for s in grammars.weight_shapes(spec).values())
        if nunk > 10 or nunk == 0:
            continue
        for kind in ('real', 'log'):
            cs.append({'spec': spec, 'semiring': kind, 'method': ['fixed-point', 'newton', 'linear'][gi % 3], 'j_precompute': False})
    # recursive SCCs of scalar nonterminals: backward driven on a symbolic fixed point (Real semiring)
    from gen import recursive
    sccs = {'scalar_linear': [['X']], 'scalar_quadratic': [['X']], 'self_loop_plus_base': [['X']], 'two_cycle': [['X', 'Y']],
            'nonlinear_cycle': [['X', 'Y']], 'two_sccs': [['X'], ['Y']]}
    for g in recursive.family():
        for scc in sccs.get(g['name'], []):
            for method in ('fixed-point', 'newton'):
                for kind in ('real', 'log'):
                    cs.append({'spec': g['spec'], 'semiring': kind, 'method': method, 'j_precompute': False, 'scc': scc, 'name': g['name']})
    # an SCC containing a structurally dead nonterminal: the dead rule must not disturb the pairing of rules with their weights
    for g in recursive.dead_scc_family():
        for kind in ('real', 'log'):
            cs.append({'spec': g['spec'], 'semiring': kind, 'method': 'newton', 'j_precompute': False, 'scc': g['scc'], 'dead': g['dead'], 'name': g['name']})
    # linearly recursive grammars with vector-/matrix-valued nonterminals, full public-API path (forward linear/newton + backward),
    # recursion weights concrete (asymmetric dyadic matrices), all other weights and the cotangent symbolic
    for g in recursive.linear_tensor_family():
        for kind in ('real', 'log'):
            if kind == 'log' and not g['log_ok']:
                continue        # Log: the Jacobian depends on the (symbolic) fixed point; SCCs with more than 2 cells exceed the linalg stub / solver reach
            for method in ('linear', 'newton'):
                cs.append({'spec': g['spec'], 'semiring': kind, 'method': method, 'j_precompute': False, 'linrec': True, 'concrete': g['concrete'], 'name': g['name']})
    return cs


def run_case(col, case, dt='float64'):
    kind = case['semiring']
    spec = case['spec']
    dtype = {'float32': torch.float32, 'float64': torch.float64}[dt]
    sx.LOG_MODE[0] = (kind == 'log')
    sx.FORK[0] = False
    sx.ABSTRACT[0] = True
    shapes = grammars.weight_shapes(spec)
    names = sorted(shapes)
    nunk = sum(math.prod(shapes[n]) for n in names)
    feats = dict(grammars.features(spec))
    feats.update({'semiring': kind, 'method': case['method'], 'j_precompute': case['j_precompute']})
    col.case(json.dumps([spec, kind, case['method']], sort_keys=True), nontrivial=True, sample={'rules': spec['rules'], 'semiring': kind, 'method': case['method']})
    if 'scc' in case:
        return run_recursive(col, case, dtype, feats)
    if case.get('linrec'):
        return run_linrec(col, case, dtype, feats)
    typ = spec['nonterminals'][spec['start']]
    nout = max(1, math.prod(spec['domains'][l] for l in typ))
    profiles = [tuple('P' * nunk)]
    if kind == 'real':       # zero weights: zero or absent gradient clause
        profiles += [tuple('Z' if i == j else 'P' for i in range(nunk)) for j in range(min(nunk, 3))]
    for prof in profiles:
        V = symvals.Vars()
        flat = {}
        c = 0
        for n in names:
            row = []
            for i in range(math.prod(shapes[n])):
                row.append(V.elem(f'{n}_{i}', kind, prof[c]))
                c += 1
            flat[n] = row
        cot = [V.elem(f'c{j}', 'lin', 'F') for j in range(nout)]
        B = B3(kind, dtype)

        def body():
            items, Z = R.run_nonrecursive(B, case, flat, cot)
            claims = []
            for name, got, want in items:
                claims.append((TL.all_same(got, want) if len(got) == len(want) else False, name))
            return claims

        def make_replay(vals, name):
            return {'spec': spec, 'semiring': kind, 'method': case['method'], 'j_precompute': case['j_precompute'],
                    'values': TL.jsonable(vals), 'profile': ''.join(prof), 'claim': name}
        f = dict(feats)
        f['regime'] = 'P' if 'Z' not in prof else 'S'
        TL.explore(col, V, body, f, make_replay, label=f"grad/{kind}/{case['method']}", timeout_ms=30000)


def run_recursive(col, case, dtype, feats):
    spec = case['spec']
    shapes = grammars.weight_shapes(spec)
    names = sorted(shapes)
    V = symvals.Vars()
    kind = case['semiring']
    flat = {n: [V.elem(f'{n}_{i}', kind, 'P') for i in range(math.prod(shapes[n]))] for n in names}
    zv = [V.elem(f'z_{n}', kind, 'P') for n in case['scc']]
    cot = [V.elem(f'c{j}', 'lin', 'F') for j in range(len(case['scc']))]
    B = B3(kind, dtype)
    sx.ABSTRACT[0] = False

    def body():
        items = R.run_recursive_backward(B, case, flat, zv, cot)
        return [(TL.all_same(got, want), name) for name, got, want in items]

    def make_replay(vals, name):
        return {'spec': spec, 'semiring': kind, 'method': case['method'], 'j_precompute': False, 'scc': case['scc'], 'dead': case.get('dead', []),
                'values': TL.jsonable(vals), 'claim': name, 'recursive': True}
    f = dict(feats)
    f['recursive_scc'] = True
    TL.explore(col, V, body, f, make_replay, label=f"grad/recursive/{case['name']}", timeout_ms=60000)


def run_linrec(col, case, dtype, feats):
    spec = case['spec']
    kind = case['semiring']
    shapes = grammars.weight_shapes(spec)
    names = sorted(shapes)
    V = symvals.Vars()
    flat = {}
    for n in names:
        if n in case['concrete']:
            flat[n] = [(sx.LogV(float(v)) if kind == 'log' else float(v)) for v in case['concrete'][n]]
        else:
            flat[n] = [V.elem(f'{n}_{i}', kind, 'P') for i in range(math.prod(shapes[n]))]
    typ = spec['nonterminals'][spec['start']]
    nout = max(1, math.prod(spec['domains'][l] for l in typ))
    cot = [V.elem(f'c{j}', 'lin', 'F') for j in range(nout)]
    B = B3(kind, dtype)
    sx.ABSTRACT[0] = False
    sx.FORK[0] = False

    def body():
        items = R.run_linear_recursive(B, case, flat, cot)
        return [(TL.all_same(got, want) if len(got) == len(want) else False, name) for name, got, want in items]

    def make_replay(vals, name):
        return {'spec': spec, 'semiring': kind, 'method': case['method'], 'j_precompute': False, 'linrec': True, 'concrete': case['concrete'],
                'values': TL.jsonable(vals), 'claim': name, 'name': case['name']}
    f = dict(feats)
    f['linear_recursive_tensor'] = True
    TL.explore(col, V, body, f, make_replay, label=f"grad/linrec/{case['name']}/{kind}/{case['method']}", timeout_ms=60000)


def main():
    a = common.args()
    if a.replay:
        common.do_replay(PID, a.replay)
    t0 = time.time()
    merged = lib.merge(lib.run_pool('c03', a.tier, a.seed, case_timeout=200))
    code = lib.finish(
        PID, a.tier, a.seed, 'other', merged, t0,
        rule='case = (non-recursive grammar from the C01 families incl. shared factors, factors unreachable from the start, duplicate externals, edgeless nodes; semiring Real|Log; method name). All weights and the output cotangent '
             '(one unknown per cell of the start tensor: any linear functional) are symbolic.',
        explanation='sum_product followed by backward (SumProduct.backward, J / J_log, multi_solve(transpose), multi_mv, PatternedTensor.project; torch.autograd.Function modelled by per-storage-cell cotangent accumulation) is executed on the z3-valued tensor model; '
                    'the solver decides, per weight entry, equality of the returned gradient with sum_j c_j dZ_j/dw obtained by forward-mode (dual-number) differentiation of the definitional sum-product (Log: (w/Z_j) dZ_j/dw in exponential representation).',
        bounds={'weights': '<=10', 'grammars': 'non-recursive; recursive SCCs are outside this check (see level_note)'},
        assumptions=['finite floats exact reals', 'autograd model validated by running the repository\'s gradcheck tests on it', 'Log: finite log-weights, Z_j > 0',
                     'regimes: P (positive weights), and for Real profiles with one zero weight'],
        regimes=['P', 'S'], technique='SMT equivalence with forward-mode derivatives of the definitional sum-product')
    sys.exit(code)


if __name__ == '__main__':
    main()
