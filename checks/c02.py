"""C02 -- sum-product of a recursive FGG is the least fixed point, or says otherwise."""
import itertools
import json
import math
import random
import sys
import time
import common
import boot      # noqa
import torch
import fggs
import z3
import sx
import symx
import lib
import symvals
import tensorlib as TL
from oracles import c02_run as R
from gen import grammars, recursive
from c08 import SymBackend

PID = 'C02'


class B2(SymBackend):
    @staticmethod
    def is_unmodelled(e):
        return isinstance(e, sx.Unmodelled)


def ncells(spec):
    return sum(math.prod(spec['domains'][l] for l in typ) for typ in spec['nonterminals'].values())


def cases(tier, seed=0):
    cs = []
    fam = recursive.family()
    if tier == 'thorough':
        # deeper tier: the tensor-valued shapes over a 3-value domain in the idempotent semirings (exact obligations), more iteration budgets
        for g in recursive.family(3):
            if g['name'] in ('hmm', 'start_recursive'):
                spec = g['spec']
                N = ncells(spec)
                for method in ('fixed-point', 'newton', 'linear'):
                    for kind in ('bool', 'viterbi'):
                        for kmax in (0, 2, N + 1):
                            cs.append({'name': g['name'] + '_3', 'spec': spec, 'linear': g['linear'], 'semiring': kind, 'method': method, 'kmax': kmax, 'tol': 0, 'N': N})
        for g in fam:
            N = ncells(g['spec'])
            for method in ('fixed-point', 'newton'):
                for kind in ('bool', 'viterbi'):
                    for kmax in (2, 3):
                        if kmax < N + 1:
                            cs.append({'name': g['name'], 'spec': g['spec'], 'linear': g['linear'], 'semiring': kind, 'method': method, 'kmax': kmax, 'tol': 0, 'N': N})
    for g in fam:
        spec, lin = g['spec'], g['linear']
        N = ncells(spec)
        for method in ('fixed-point', 'newton', 'linear'):
            # Bool: exact, budgets 0 and N+1 (Kleene iteration is stationary after N steps)
            for kmax in (0, 1, N + 1):
                cs.append({'name': g['name'], 'spec': spec, 'linear': lin, 'semiring': 'bool', 'method': method, 'kmax': kmax, 'tol': 0, 'N': N})
            # Viterbi with non-positive weights: exact with tol = 0
            for kmax in (0, 1, N + 1):
                cs.append({'name': g['name'], 'spec': spec, 'linear': lin, 'semiring': 'viterbi', 'method': method, 'kmax': kmax, 'tol': 0, 'N': N})
        # Real: linear solver (exact), iterative methods (never over-estimates, stationary, or warns)
        cs.append({'name': g['name'], 'spec': spec, 'linear': lin, 'semiring': 'real', 'method': 'linear', 'kmax': 10, 'tol': 1e-5, 'N': N})
        if lin:
            cs.append({'name': g['name'], 'spec': spec, 'linear': lin, 'semiring': 'real', 'method': 'newton', 'kmax': 10, 'tol': 1e-5, 'N': N})
        small = sum(math.prod(s) for s in grammars.weight_shapes(spec).values()) <= 4
        tiny = sum(math.prod(s) for s in grammars.weight_shapes(spec).values()) <= 2
        for kmax in ((0, 1, 2) if tiny else (0, 1) if small else (0,)):
            cs.append({'name': g['name'], 'spec': spec, 'linear': lin, 'semiring': 'real', 'method': 'fixed-point', 'kmax': kmax, 'tol': 1e-5, 'N': N})
            if not lin and small:
                cs.append({'name': g['name'], 'spec': spec, 'linear': lin, 'semiring': 'real', 'method': 'newton', 'kmax': kmax, 'tol': 1e-5, 'N': N})
        if small:
            cs.append({'name': g['name'], 'spec': spec, 'linear': lin, 'semiring': 'log', 'method': 'linear', 'kmax': 10, 'tol': 1e-5, 'N': N})
            if lin:
                cs.append({'name': g['name'], 'spec': spec, 'linear': lin, 'semiring': 'log', 'method': 'fixed-point', 'kmax': 1, 'tol': 1e-5, 'N': N})
    # base-case / step factors given as PatternedTensors with a diagonal pattern: the sparsity pattern of the iterate changes between iterations
    # (Bool: 4 domain values, so that paths of length 3 matter; Viterbi: 2 values -- max-plus terms over 16 cells are beyond the solver budget)
    for kind, size in (('bool', 4), ('viterbi', 2)):
      for g in recursive.patterned_family(size):
        spec = g['spec']
        N = ncells(spec)
        for method in ('fixed-point', 'newton', 'linear'):
            if True:
                for kmax in (1, N + 1):
                    cs.append({'name': g['name'], 'spec': spec, 'linear': True, 'semiring': kind, 'method': method, 'kmax': kmax, 'tol': 0, 'N': N, 'patterned': g['patterned']})
    return cs


def exact(case):
    k = case['semiring']
    return k in ('bool', 'viterbi') or case['method'] == 'linear' or (case['method'] == 'newton' and case['linear'])


def run_case(col, case, dt='float32'):
    kind = case['semiring']
    spec = case['spec']
    dtype = {'float32': torch.float32, 'float64': torch.float64}[dt]
    sx.LOG_MODE[0] = (kind == 'log')
    sx.FORK[0] = kind in ('real', 'log')
    sx.ABSTRACT[0] = False
    shapes = grammars.weight_shapes(spec)
    names = sorted(shapes)
    nunk = sum(math.prod(shapes[n]) for n in names)
    feats = {'grammar': case['name'], 'semiring': kind, 'method': case['method'], 'kmax': case['kmax'], 'tol': case['tol'], 'linear': case['linear']}
    col.case(json.dumps([case['name'], kind, case['method'], case['kmax'], case['tol']]), nontrivial=True,
             sample={'grammar': case['name'], 'rules': spec['rules'], 'semiring': kind, 'method': case['method'], 'kmax': case['kmax'], 'tol': case['tol']})
    rng = random.Random(hash(case['name'] + kind + case['method']) & 0xffff)
    if kind in ('bool', 'viterbi'):
        profiles = [None]
    elif exact(case):
        profiles = list(itertools.product('ZPI', repeat=nunk)) if 3 ** nunk <= 81 else \
            [tuple('P' * nunk)] + [tuple(rng.choice('ZPPI') for _ in range(nunk)) for _ in range(30)]
    else:
        profiles = [tuple('P' * nunk)] + [tuple('Z' if i == j else 'P' for i in range(nunk)) for j in range(min(nunk, 3))]
    B0 = B2(kind, dtype)
    for prof in profiles:
        V = symvals.Vars()
        flat = {}
        c = 0
        for n in names:
            row = []
            for i in range(math.prod(shapes[n])):
                if n in case.get('patterned', {}) and i // shapes[n][1] != i % shapes[n][1]:
                    row.append(B0.pyzero)        # off the diagonal of a diagonal-patterned factor: the semiring zero (concrete)
                    c += 1
                    continue
                if kind == 'viterbi':
                    e = V.elem(f'{n}_{i}', 'viterbi', 'T')
                    # non-positive log-weights (cycles of weight <= 0), no +inf
                    V.assumptions += [z3.Not(e.pinf), e.v <= 0]
                else:
                    e = V.elem(f'{n}_{i}', kind, 'T' if prof is None else prof[c])
                row.append(e)
                c += 1
            flat[n] = row
        ycells = {nt: {ix: V.elem(f'y_{nt}_{"_".join(map(str, ix))}', kind, 'T')
                       for ix in itertools.product(*[range(spec['domains'][l]) for l in typ])}
                  for nt, typ in spec['nonterminals'].items()}
        B = B2(kind, dtype)

        def body():
            out = R.run(B, case, flat)
            claims = []
            exc = out['exception']
            if case['method'] == 'linear' and not case['linear']:
                claims.append((isinstance(exc, ValueError), 'linear_on_nonlinear_raises_ValueError'))
                return claims
            if exc is not None:
                raise exc
            claims.append(('shape_error' not in out and 'missing' not in out, 'every_nonterminal_has_a_value_of_its_shape'))
            if out['values'] is None or 'shape_error' in out or 'missing' in out:
                return claims
            r = out['values']
            Gr = R.G(B, spec, out['weights'], r)
            Gy = R.G(B, spec, out['weights'], ycells)
            O = B.O
            with B.oracle_ctx():
                cells = [(nt, ix) for nt in r for ix in r[nt]]
                pre = sx.And(*[O.le(Gy[nt][ix], ycells[nt][ix]) for nt, ix in cells])
                below = sx.And(*[O.le(r[nt][ix], ycells[nt][ix]) for nt, ix in cells])
                fix = sx.And(*[sx.same(r[nt][ix], Gr[nt][ix]) for nt, ix in cells])
                incar = sx.And(*[O.in_carrier(r[nt][ix]) for nt, ix in cells])
            warned = out['warned']
            idempotent = kind in ('bool', 'viterbi')
            if idempotent and case['kmax'] >= case['N'] + 1 and case['method'] == 'fixed-point':
                # unwinding assertion: Kleene iteration from zero is stationary after N steps
                claims.append((not warned, 'no_budget_exhaustion_within_N_plus_1_steps'))
            if not warned:
                claims.append((incar, 'result_in_carrier'))
                claims.append((sx.Implies(pre, below), 'below_every_prefixed_point'))
                if exact(case):
                    claims.append((fix, 'is_fixed_point'))
                else:
                    # returning without a warning means the stopping criterion was met (its last evaluation was True)
                    claims.append((bool(out['stops']) and out['stops'][-1], 'criterion_met_or_warned'))
                    if case['method'] == 'fixed-point':
                        tol = case['tol']
                        with B.oracle_ctx():
                            stat = sx.And(*[sx.isclose(r[nt][ix], Gr[nt][ix], 0.0, tol) for nt, ix in cells])
                        claims.append((stat, 'stationary_within_tol'))
            return claims

        def make_replay(vals, name):
            return {'name': case['name'], 'spec': spec, 'semiring': kind, 'method': case['method'], 'kmax': case['kmax'], 'tol': case['tol'],
                    'linear': case['linear'], 'N': case['N'], 'dtype': 'float64', 'values': TL.jsonable(vals), 'patterned': case.get('patterned'),
                    'profile': ''.join(prof) if prof else None, 'claim': name}
        f = dict(feats)
        f['regime'] = 'T' if prof is None else 'S'
        TL.explore(col, V, body, f, make_replay, label=f"{case['name']}/{kind}/{case['method']}/k{case['kmax']}", timeout_ms=30000)


def main():
    a = common.args()
    if a.replay:
        common.do_replay(PID, a.replay)
    t0 = time.time()
    merged = lib.merge(lib.run_pool('c02', a.tier, a.seed, case_timeout=200))
    code = lib.finish(
        PID, a.tier, a.seed, 'other', merged, t0,
        rule='case = (recursive grammar shape, semiring, method, kmax, tol). Shapes: scalar linear x=px+q, scalar quadratic x=px^2+q, pure self-loop with/without base case, linear two-cycle, HMM-shaped arity-1 recursion over a size-2 domain, '
             'two recursive SCCs, recursive start symbol of arity 1, non-linear mutual recursion. All weights symbolic (weight-one cycles, zero and infinite weights are values of the unknowns).',
        explanation='sum_products runs on the z3-valued tensor model; every stopping test of the iteration forks the path. Per path: (Bool, Viterbi with tol=0, method linear / newton on linear SCCs) the result r satisfies r = G(r) and lies below every '
                    'pre-fixed point (fresh universally quantified y: G(y) <= y implies r <= y) for the independently built equation map G, i.e. r is the least fixed point; (Real/Log iterative methods) on every path that returned without a warning '
                    'r lies below every pre-fixed point and |G(r) - r| <= tol; in the idempotent semirings a budget of N+1 iterations (N = number of unknown cells) must not be exhausted (unwinding assertion); method=linear on a non-linear grammar raises ValueError.',
        bounds={'nonterminals': 3, 'cells': '<= 4', 'kmax': 'Bool/Viterbi {0, N+1}; Real iterative {0,1,2}', 'unknown_weights': '<= 8'},
        assumptions=['Viterbi: log-weights <= 0 (no positive cycles), no +inf', 'finite floats exact reals; "error vanishes as tol -> 0" is not decided (limit statement), only the per-tol stationarity bound',
                     'torch.linalg.solve contract stub; Real/Log: class profiles zero/positive/infinite per weight (all 3^k for k<=4, sample beyond) for exact methods, positive + single-zero profiles for iterative ones'],
        stubs=['torch.linalg.solve', 'warnings (recorded)'], regimes=['T', 'S'], technique='path-forking symbolic execution + Knaster-Tarski least-fixed-point SMT queries')
    sys.exit(code)


if __name__ == '__main__':
    main()
