"""definitions shared by checks/c15.py and replay/c15.py (no solver imports)"""
from oracles import c15_run as R

# HRGs for the confluence part: rules as (lhs, type, rhs spec)
GRAMMARS = [
    {'start': ('S', []), 'rules': [('S', [], {'nodes': [0], 'edges': [['X', [0], 1], ['Y', [0], 1]], 'ext': []}),
                                   ('X', [0], {'nodes': [0, 0], 'edges': [['a', [0, 1], 0], ['X', [1], 1]], 'ext': [0]}),
                                   ('X', [0], {'nodes': [0], 'edges': [['b', [0], 0]], 'ext': [0]}),
                                   ('Y', [0], {'nodes': [0, 1], 'edges': [['X', [0], 1], ['c', [0, 1], 0]], 'ext': [0]})]},
    {'start': ('S', [0]), 'rules': [('S', [0], {'nodes': [0, 0], 'edges': [['S', [1], 1], ['S', [1], 1], ['a', [0, 1], 0]], 'ext': [0]}),
                                    ('S', [0], {'nodes': [0], 'edges': [['b', [0], 0]], 'ext': [0]})]},
]
# derivation trees [rule index, [children]] with <= 4 rule instances
TREES = {0: [[0, [[2, []], [3, [[2, []]]]]], [0, [[1, [[2, []]]], [3, [[2, []]]]]], [0, [[2, []], [3, [[1, [[2, []]]]]]]]],
         1: [[1, []], [0, [[1, []], [1, []]]], [0, [[0, [[1, []], [1, []]]], [1, []]]], [0, [[1, []], [0, [[1, []], [1, []]]]]]]}


def build_hrg(fggs, gspec):
    lab = {}

    def el(name, typ, nt):
        return fggs.EdgeLabel(name, [fggs.NodeLabel(R.LABELS[t]) for t in typ], is_nonterminal=nt, is_terminal=not nt)
    h = fggs.HRG(el(gspec['start'][0], gspec['start'][1], True))
    for k, (lhs, typ, rhs) in enumerate(gspec['rules']):
        g, ns, es = R.build_graph(fggs, rhs, f'r{k}')
        h.add_rule(fggs.HRGRule(el(lhs, typ, True), g))
    return h



def check_derive(fggs, hrg, tree, ref_canon):
    fgg = fggs.FGG.from_hrg(hrg)
    rules = fgg.all_rules()
    inst = []
    counter = [0]

    def mk(t):
        rule = rules[t[0]]
        asst = {}
        for v in rule.rhs.nodes():
            asst[v] = counter[0] % 2
            counter[0] += 1
        nts = [e for e in rule.rhs.edges() if e.label.is_nonterminal]
        d = fggs.FGGDerivation(fgg, rule, asst, {})
        for e, sub in zip(nts, t[1]):
            child = mk(sub)
            # external nodes of the child agree with the parent's assignment
            for cv, pv in zip(child.rule.rhs.ext, e.nodes):
                child.asst[cv] = asst[pv]
            d.children[e] = child
        return d
    d = mk(tree)

    def collect(x):
        for e in x.rule.rhs.edges():
            if e.label.is_terminal:
                inst.append((e.label.name, tuple(x.asst[v] for v in e.nodes)))
        for c in x.children.values():
            collect(c)
    # children's externals were fixed after construction: re-propagate top-down
    def fix(x):
        for e, c in x.children.items():
            for cv, pv in zip(c.rule.rhs.ext, e.nodes):
                c.asst[cv] = x.asst[pv]
            fix(c)
    fix(d)
    collect(d)
    graph, asst = d.derive()
    for v in graph.nodes():
        if v not in asst:
            return 'derive(): assignment is not total'
    got = sorted((e.label.name, tuple(asst[v] for v in e.nodes)) for e in graph.edges())
    if any(e.label.is_nonterminal for e in graph.edges()):
        return 'derive(): nonterminal edge left'
    if got != sorted(inst):
        return f'derive(): factors {got} differ from the rule instances\' factors {sorted(inst)}'
    if ref_canon is not None and R.canon(graph) != ref_canon:
        return 'derive(): graph is not isomorphic to the graph obtained by explicit replacement'
    return None


