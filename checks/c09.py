"""C09 -- semiring linear solvers return the least solution of x = A x + b."""
import itertools
import math
import random
import sys
import time
import common
import boot      # noqa
import torch
import fggs
import z3
import sx
import symx
import lib
import symvals
import tensorlib as TL
from fggs import indices
from oracles import c09_run as R
from gen import patterns
from c08 import SymBackend

PID = 'C09'
KINDS = ['real', 'log', 'viterbi', 'bool']


def claims_of(items):
    out = []
    for name, mode, lhs, rhs in items:
        if mode == 'eq':
            out.append((lhs == rhs, name))
        elif mode == 'same':
            out.append((TL.all_same(lhs, rhs) if len(lhs) == len(rhs) else False, name))
        else:   # implies: conjunction of premises => conjunction of conclusions
            out.append((sx.Implies(sx.And(*lhs), sx.And(*rhs)), name))
    return out


def cases(tier, seed):
    rng = random.Random(seed)
    cs = []
    for kind in KINDS:
        # Semiring.solve on dense tensors
        for n in ((1,) if kind == 'log' else (1, 2) if tier == 'quick' or kind == 'real' else (1, 2, 3)):
            for m in (None, 1, 2):
                cs.append({'entry': 'solve', 'semiring': kind, 'n': n, 'm': m})
        # PatternedTensor.solve on typed pattern pairs
        for n in (2, 3) if tier != 'quick' else (2,):
            for ta in patterns.type_tuples((n,), depth=1):
                t = ta[0]
                ras = patterns.typed_recipes([t, t], max_phys=4 if kind in ('real', 'log') else 6, layouts=('contig', 'expand'))
                rbs = patterns.typed_recipes([t], max_phys=4, layouts=('contig', 'expand')) + \
                    patterns.typed_recipes([t, ['n', 2]], max_phys=4, layouts=('contig',))
                pairs = list(itertools.product(ras, rbs))
                cap = 14 if tier == 'quick' else 80
                if len(pairs) > cap:
                    pairs = pairs[:2] + rng.sample(pairs[2:], cap - 2)
                for ra, rb in pairs:
                    if kind in ('real', 'log') and patterns.nelems(ra) + patterns.nelems(rb) > (6 if kind == 'real' else 3):
                        continue
                    da, db = rng.choice([('zero', 'zero'), ('zero', 'zero'), ('one', 'zero'), ('zero', 'top'), ('top', 'one')])
                    if kind in ('real', 'log') and n == 3 and da != 'zero':
                        continue      # a dense symbolic 3x3 real system (non-zero default of A): non-linear arithmetic beyond the per-case budget
                    cs.append({'entry': 'pt_solve', 'semiring': kind, 'types': patterns.depict_type(t),
                               'operands': [{'recipe': ra, 'default': da}, {'recipe': rb, 'default': db}]})
        # multi_solve / multi_mv over all block structures on two keys
        # blocks with two axes per key: flattening must keep the index groups in order (also under transpose)
        shape_sets = [{'x': [2], 'y': []}, {'x': [2, 2], 'y': []}] if tier == 'quick' else [{'x': [2], 'y': []}, {'x': [], 'y': []}, {'x': [2], 'y': [1]}, {'x': [1, 2], 'y': []}, {'x': [2, 2], 'y': []}, {'x': [2, 2], 'y': [2]}]
        if kind in ('real', 'log'):
            # nonlinear real arithmetic: flattened order 2 (scalar blocks); the block bookkeeping itself is
            # semiring-generic and is covered with larger blocks in the Viterbi/Bool semirings
            shape_sets = [{'x': [], 'y': []}] if tier == 'quick' else [{'x': [], 'y': []}, {'x': [1], 'y': []}]
        for shapes in shape_sets:
            allab = [('x', 'x'), ('x', 'y'), ('y', 'x'), ('y', 'y')]
            for mask in range(16):
                ab = [allab[i] for i in range(4) if mask >> i & 1]
                if math.prod(shapes['x']) > 2 and (kind != 'bool' or (mask % 2 and tier == 'quick')):
                    continue      # two-axis blocks (flattened order 5): Bool semiring only (the block bookkeeping is semiring-generic)
                if kind == 'log' and len(ab) > 2:
                    continue     # stated bound: the Log solver is decided for at most two present blocks
                for bmask in range(1, 4):
                    bb = [k for i, k in enumerate(['x', 'y']) if bmask >> i & 1]
                    for tr in (False, True):
                        if tier == 'quick' and rng.random() < 0.5 and kind in ('real', 'log'):
                            continue
                        cs.append({'entry': 'multi_solve', 'semiring': kind, 'shapes': shapes, 'ablocks': ab, 'bblocks': bb, 'transpose': tr})
                        if mask % 3 == 0:
                            cs.append({'entry': 'multi_mv', 'semiring': kind, 'shapes': shapes, 'ablocks': ab, 'bblocks': bb, 'transpose': tr})
        if kind in ('viterbi', 'bool'):
            # three keys with scalar blocks: every one of the 2^9 present/absent patterns of A (fill-in during elimination)
            keys = ['x', 'y', 'z']
            all9 = [(a, b) for a in keys for b in keys]
            for mask in range(512):
                if tier == 'quick' and kind == 'bool' and mask % 2:
                    continue
                ab = [all9[i] for i in range(9) if mask >> i & 1]
                bb = [k for i, k in enumerate(keys) if (mask * 7 + 3) >> i & 1] or ['x']
                for tr in (False, True):
                    cs.append({'entry': 'multi_solve', 'semiring': kind, 'shapes': {'x': [], 'y': [], 'z': []}, 'keys': keys,
                               'ablocks': ab, 'bblocks': bb, 'transpose': tr})
    # ---- concrete system matrices (dyadic entries, spectral radius < 1, = 1, > 1, infinite and zero entries), symbolic right-hand side:
    # larger orders and multi-axis blocks in the Real and Log semirings, where the torch.linalg.solve shortcut, its acceptance test and the
    # Gauss-Jordan fallback with star all run; the leastness query is linear arithmetic with special-value tags
    INF = 'inf'
    mats = [
        [[0.5, 0.25], [0.0, 0.5]], [[0.0, 1.0], [0.5, 0.0]], [[1.0, 0.0], [0.0, 0.5]], [[0.5, 1.0], [1.0, 0.5]], [[0.0, INF], [0.0, 0.0]], [[0.0, 0.0], [0.0, 0.0]],
        [[0.5, 0.5, 0.0], [0.0, 0.5, 0.5], [0.0, 0.0, 0.5]], [[0.0, 1.0, 0.0], [0.0, 0.0, 1.0], [0.5, 0.0, 0.0]], [[2.0, 0.0, 0.0], [1.0, 0.0, 0.0], [0.0, 0.0, 0.5]],
        [[0.0, 0.5, 0.0], [0.0, 0.0, 0.0], [1.0, 0.0, 1.0]], [[0.5, 0.0, 0.25], [0.25, 0.0, 0.0], [0.0, 1.0, 0.5]],
        [[0.0, 0.5, 0.0, 0.0], [0.0, 0.0, 0.5, 0.0], [0.0, 0.0, 0.0, 1.0], [0.5, 0.0, 0.0, 0.0]],
        [[0.5, 0.0, 0.0, 0.25], [0.0, 0.5, 0.0, 0.0], [0.25, 0.0, 0.5, 0.0], [0.0, 1.0, 0.0, 0.0]],
    ]
    for kind in ('real',):       # (Log: the max-shifted logsumexp of the einsum layer is not exact on concrete floats; the generic elimination it shares with Viterbi/Bool is covered there)
        for mi, M in enumerate(mats):
            n = len(M)
            for m in (None, 2):
                cs.append({'entry': 'solve', 'semiring': kind, 'n': n, 'm': m, 'A': M, 'mat': mi})
            # the same matrix cut into blocks over keys x (first n-1 indices, as one or two axes) and y (scalar)
            if n >= 3:
                xs = [[n - 1]] + ([[2, (n - 1) // 2]] if (n - 1) % 2 == 0 and n - 1 >= 4 else []) + ([[1, n - 1]] if tier != 'quick' else [])
                for xshape in xs:
                    for tr in (False, True):
                        for bb in (['x', 'y'], ['x'], ['y']):
                            cs.append({'entry': 'multi_solve', 'semiring': kind, 'shapes': {'x': xshape, 'y': []}, 'A': M, 'mat': mi, 'bblocks': bb, 'transpose': tr,
                                       'ablocks': None})
    return cs


def pyconst(kind, name):
    return {'real': {'zero': 0.0, 'one': 1.0, 'top': math.inf}, 'log': {'zero': -math.inf, 'one': 0.0, 'top': math.inf},
            'viterbi': {'zero': -math.inf, 'one': 0.0, 'top': math.inf}, 'bool': {'zero': False, 'one': True, 'top': True}}[kind][name]


def run_case(col, case, dt='float32'):
    kind = case['semiring']
    dtype = {'float32': torch.float32, 'float64': torch.float64}[dt]
    sx.LOG_MODE[0] = (kind == 'log')
    sx.FORK[0] = False
    sx.ABSTRACT[0] = False
    B = SymBackend(kind, dtype)
    entry = case['entry']
    feats = {'semiring': kind, 'entry': entry, 'transpose': case.get('transpose')}
    col.case(repr(case), nontrivial=True, sample={k: (v if k != 'operands' else [patterns.depict(o['recipe']) + ' default=' + o['default'] for o in v]) for k, v in case.items()})
    if case.get('A') is not None:
        return run_concrete_matrix(col, case, B, feats, dt)
    # how many unknowns -> regime
    if entry == 'solve':
        sizes = [case['n'] ** 2, case['n'] * (case['m'] or 1)]
        ny = sizes[1]
    elif entry == 'pt_solve':
        sizes = [patterns.nelems(o['recipe']) for o in case['operands']]
        shp = [patterns.numel(v, case['operands'][1]['recipe']['psizes']) for v in case['operands'][1]['recipe']['vaxes']]
        ny = math.prod(shp)
    else:
        numel = {k: math.prod(v) for k, v in case['shapes'].items()}
        sizes = [sum(numel[a] * numel[b] for a, b in case['ablocks']), sum(numel[k] for k in case['bblocks'])]
        ny = sum(numel.values())
    nunk = sum(sizes)
    rng = random.Random(hash(repr(case)) & 0xffff)
    if kind in ('viterbi', 'bool'):
        profiles = [None]                     # regime T: all special values symbolic at once
    else:
        # regime S: every entry gets a class zero / positive-finite (symbolic) / infinite; all 3^k profiles when
        # k <= 6, otherwise the all-positive profile plus a seeded sample; comparisons fork (If-free queries)
        if 3 ** nunk <= 729:
            profiles = list(itertools.product('ZPI', repeat=nunk))
        else:
            profiles = [tuple('P' * nunk)] + [tuple(rng.choice('ZPPI') for _ in range(nunk)) for _ in range(40)]
        if len(profiles) > 120:
            profiles = profiles[:1] + rng.sample(profiles[1:], 119) if profiles[0] == tuple('P' * nunk) else rng.sample(profiles, 120)
    sx.FORK[0] = kind in ('real', 'log')
    for prof in profiles:
        regime = 'T' if prof is None else 'S'
        V = symvals.Vars()
        cnt = [0]

        def mk(name):
            cls = 'T' if prof is None else prof[cnt[0]]
            cnt[0] += 1
            return V.elem(name, kind, cls)
        if entry in ('solve', 'pt_solve'):
            elems = [[mk(f'a{i}') for i in range(sizes[0])], [mk(f'b{i}') for i in range(sizes[1])]]
        else:
            numel = {k: math.prod(v) for k, v in case['shapes'].items()}
            ea = {a + b: [mk(f'a{a}{b}{i}') for i in range(numel[a] * numel[b])] for a, b in case['ablocks']}
            eb = {k: [mk(f'b{k}{i}') for i in range(numel[k])] for k in case['bblocks']}
            elems = [ea, eb]
        yel = [V.elem(f'y{i}', kind, 'T') for i in range(ny)]

        def body():
            if entry == 'solve':
                items = R.run_dense(B, case, elems, yel)
            elif entry == 'pt_solve':
                items = R.run_patterned(B, case, elems, yel)
            else:
                items = R.run_multi(B, case, elems, yel)
            return claims_of(items)

        def make_replay(vals, name):
            d = dict(case)
            d.update({'dtype': dt, 'values': TL.jsonable(vals), 'claim': name, 'regime': regime, 'profile': ''.join(prof) if prof else None})
            return d
        f = dict(feats)
        f['regime'] = regime
        TL.explore(col, V, body, f, make_replay, label=f'{kind}/{entry}/{regime}', timeout_ms=30000)


def conc(kind, v):
    v = math.inf if v == 'inf' else float(v)
    return sx.LogV(v) if kind == 'log' else v


def blocks_of(case):
    """cut case['A'] (order n) into blocks over keys x (first n-1 indices) and y (last index); all-zero blocks are absent"""
    M = case['A']
    n = len(M)
    rng_ = {'x': range(0, n - 1), 'y': range(n - 1, n)}
    ab, ea = [], {}
    for a in 'xy':
        for b in 'xy':
            fl = [M[i][j] for i in rng_[a] for j in rng_[b]]
            if any(v != 0.0 for v in fl):
                ab.append((a, b))
                ea[a + b] = fl
    return ab, ea


def run_concrete_matrix(col, case, B, feats, dt):
    kind = case['semiring']
    entry = case['entry']
    n = len(case['A'])
    sx.FORK[0] = True
    V = symvals.Vars()
    if entry == 'solve':
        m = case.get('m')
        nb = n * (m or 1)
        elems = [[conc(kind, v) for row in case['A'] for v in row], [V.elem(f'b{i}', kind, 'T') for i in range(nb)]]
        ny = nb
        c2 = case
    else:
        ab, ea = blocks_of(case)
        numel = {'x': n - 1, 'y': 1}
        eb = {k: [V.elem(f'b{k}{i}', kind, 'T') for i in range(numel[k])] for k in case['bblocks']}
        elems = [{k: [conc(kind, v) for v in fl] for k, fl in ea.items()}, eb]
        ny = n
        c2 = dict(case)
        c2['ablocks'] = ab
    yel = [V.elem(f'y{i}', kind, 'T') for i in range(ny)]

    def body():
        items = R.run_dense(B, c2, elems, yel) if entry == 'solve' else R.run_multi(B, c2, elems, yel)
        return claims_of(items)

    def make_replay(vals, name):
        d = dict(c2)
        d.update({'dtype': dt, 'values': TL.jsonable(vals), 'claim': name, 'regime': 'concrete-matrix', 'profile': None})
        return d
    f = dict(feats)
    f['regime'] = 'concrete-matrix'
    f['mat'] = case.get('mat')
    TL.explore(col, V, body, f, make_replay, label=f'{kind}/{entry}/concrete-matrix/{case.get("mat")}', timeout_ms=30000)


def run_indexed(col, case, k):
    run_case(col, case, dt='float64' if k % 4 == 0 else 'float32')


def shard(i, n, tier, seed):
    col = lib.Collector()
    cs = cases(tier, seed)
    mine = cs[i::n]
    with lib.Functions() as fns:
        for c in mine[:8]:
            if c['semiring'] in ('viterbi', 'bool'):
                run_case(col, c)
    col.functions |= fns.names
    for k, c in enumerate(mine):
        dt = 'float64' if k % 4 == 0 else 'float32'
        if c['semiring'] in ('viterbi', 'bool'):
            if k >= 8:
                run_case(col, c, dt=dt)
        else:
            lib.guarded(lambda cc, c=c, dt=dt: run_case(cc, c, dt=dt), col, 120, f"{c['entry']}/{c['semiring']}")
    return col.result(symx.STATS)


def main():
    a = common.args()
    if a.replay:
        common.do_replay(PID, a.replay)
    t0 = time.time()
    merged = lib.merge(lib.run_pool('c09', a.tier, a.seed))
    code = lib.finish(
        PID, a.tier, a.seed, 'other', merged, t0,
        rule='case = (entry point Semiring.solve | PatternedTensor.solve | multi_solve | multi_mv, semiring, structure). Semiring.solve: dense n x n with n<=2 (Viterbi/Bool n<=3 in thorough), b a vector or an n x m matrix (m<=2); '
             'PatternedTensor.solve: well-typed pattern pairs (A over (t,t), b over (t) or (t,2)) incl. diagonal A, sum-injection b, stride-0 storage, non-zero defaults; multi_solve/multi_mv: every present/absent combination of the '
             '4 A-blocks and 2 b-blocks over two keys with block shapes (2,),() [thorough: more], transpose on/off. All entries symbolic.',
        explanation='The solvers run on the z3-valued tensor model (torch.linalg.solve is a contract stub forking on det = 0). The returned x is decided to be the least solution by two queries per right-hand side: '
                    'x = A x + b, and for a fresh universally quantified y: A y + b <= y implies x <= y (Knaster-Tarski), over the independently denoted dense system with the mathematical semiring operations '
                    '(so divergence to the infinite element is covered: inf is least only if no finite pre-fixed point exists). Arguments are compared cell-wise before/after.',
        bounds={'dense_order': 2, 'flattened_multi_order': 3, 'unknowns': '<= 8 tagged, else finite regime'},
        assumptions=['torch.linalg.solve modelled by its contract (unique solution via adjugate/determinant, RuntimeError iff singular), no pivoting/rounding',
                     'finite floats exact reals', 'Log semiring in exponential representation'],
        stubs=['torch.linalg.solve'], regimes=['T', 'F'], technique='Knaster-Tarski least-fixed-point SMT queries over symbolic execution of the real solvers')
    sys.exit(code)


if __name__ == '__main__':
    main()
