"""C01 -- sum-product of a non-recursive FGG equals its definition."""
import itertools
import json
import math
import random
import sys
import time
import common
import boot      # noqa
import torch
import fggs
import z3
import sx
import symx
import lib
import symvals
import tensorlib as TL
from oracles import c01_run as R
from gen import grammars
from c08 import SymBackend
from c06 import claims_of

PID = 'C01'
KINDS = ['real', 'log', 'viterbi', 'bool']
METHODS = ['fixed-point', 'newton', 'linear']


def cases(tier, seed):
    rng = random.Random(seed)
    fam = grammars.nonrecursive_family(tier, seed)
    cs = []
    for gi, spec in enumerate(fam):
        nunk = sum(math.prod(s) for s in grammars.weight_shapes(spec).values())
        if nunk > (14 if tier == 'quick' else 22):
            continue
        for kind in KINDS:
            # every method on a rotating subset, all three on the feature set (first grammars)
            ms = METHODS if gi < 60 else [METHODS[(gi + KINDS.index(kind)) % 3]]
            for m in ms:
                cs.append({'spec': spec, 'semiring': kind, 'method': m, 'dtype': 'float64' if (gi + len(m)) % 2 else 'float32',
                           'requires_grad': kind in ('real', 'log') and gi % 3 == 0})
    return cs


def regimes_for(kind, nunk):
    if kind in ('viterbi', 'bool'):
        return ['T']
    if nunk <= (5 if kind == 'real' else 2):
        return ['T']
    return ['P', 'S']


def run_case(col, case):
    kind = case['semiring']
    spec = case['spec']
    dtype = {'float32': torch.float32, 'float64': torch.float64}[case['dtype']]
    sx.LOG_MODE[0] = (kind == 'log')
    sx.FORK[0] = False
    sx.ABSTRACT[0] = kind in ('log', 'real')
    shapes = grammars.weight_shapes(spec)
    names = sorted(shapes)
    nunk = sum(math.prod(shapes[n]) for n in names)
    feats = dict(grammars.features(spec))
    feats.update({'semiring': kind, 'method': case['method'], 'requires_grad': case['requires_grad']})
    col.case(json.dumps([spec, kind, case['method'], case['dtype'], case['requires_grad']], sort_keys=True), nontrivial=len(spec['rules']) > 0,
             sample={'spec': spec, 'semiring': kind, 'method': case['method']})
    for regime in regimes_for(kind, nunk):
        profiles = [None]
        if regime == 'S':
            pos = list(range(nunk))
            profiles = [(p, q) for p in pos[:3] for q in pos[-3:] if p != q][:5] + [(None, q) for q in pos[:2]] + [(p, None) for p in pos[-2:]]
        for prof in profiles:
            V = symvals.Vars()
            flat = {}
            c = 0
            for n in names:
                row = []
                for i in range(math.prod(shapes[n])):
                    cls = regime if regime != 'S' else ('I' if c == prof[0] else 'Z' if c == prof[1] else 'P')
                    row.append(V.elem(f'{n}_{i}', kind, cls))
                    c += 1
                flat[n] = row
            B = SymBackend(kind, dtype)

            def body():
                torch.autograd.reset_tape()
                return claims_of(R.run(B, case, flat))

            def make_replay(vals, name):
                return {'spec': spec, 'semiring': kind, 'method': case['method'], 'dtype': case['dtype'], 'requires_grad': case['requires_grad'],
                        'values': TL.jsonable(vals), 'profile': prof, 'regime': regime, 'claim': name}
            f = dict(feats)
            f['regime'] = regime
            TL.explore(col, V, body, f, make_replay, label=f"{kind}/{case['method']}/{regime}", timeout_ms=60000)


def shard(i, n, tier, seed):
    col = lib.Collector()
    cs = cases(tier, seed)
    mine = cs[i::n]
    with lib.Functions() as fns:
        for c in mine[:12]:
            if c['semiring'] in ('viterbi', 'bool'):
                run_case(col, c)
    col.functions |= fns.names
    for k, c in enumerate(mine):
        if c['semiring'] in ('viterbi', 'bool'):
            if k >= 12:
                run_case(col, c)
        else:   # nonlinear real arithmetic: hard per-case limit
            lib.guarded(lambda cc, c=c: run_case(cc, c), col, 120, f"{c['semiring']}/{c['method']}")
    return col.result(symx.STATS)


def main():
    a = common.args()
    if a.replay:
        common.do_replay(PID, a.replay)
    t0 = time.time()
    merged = lib.merge(lib.run_pool('c01', a.tier, a.seed))
    code = lib.finish(
        PID, a.tier, a.seed, 'other', merged, t0,
        rule='case = (non-recursive grammar, semiring, method name, dtype, requires_grad). Grammars: the single-rule family (<=2 nodes over labels T(2),U(1|3), <=2 terminal edges of arity 0-2 with any attachment '
             'incl. f(v,v), any external list of length<=2 incl. duplicates, shared or distinct factors), a seeded two-level family (S uses nonterminal X of arity 0-2 once or twice, X has 0-2 rules, optional second S rule, '
             'optional unreachable/unproductive Y), and a hand-written feature set (edgeless internal/external nodes, nullary factors, nonterminals without rules, unreachable nonterminals, start arity 1-2, duplicate externals, '
             'chains, 3-edge rules). Every factor entry is symbolic. distinct = distinct case',
        explanation='sum_products / sum_product (SumProduct.forward, F, sum_product_edges, einsum, MultiTensor, scc, ...) run on the z3-valued tensor model; for every nonterminal and every cell the solver decides equality '
                    'with the definitional sum over rules x node assignments of the product of factor weights (oracles/sumproduct.py, semiring operations with 0 x inf = 0).',
        bounds={'nodes_per_rule': 3, 'edges_per_rule': 3, 'nonterminals': 3, 'domain_sizes': 'T=2, U in {1,3}', 'unknowns': '<=14 quick / <=22 thorough'},
        assumptions=['finite floats exact reals', 'Log semiring in exponential representation',
                     'regimes: T (all special values symbolic) for Viterbi/Bool and small Real cases; otherwise P (positive finite) and S (profiles: one infinite and/or one zero weight, rest positive)'],
        regimes=['T', 'P', 'S'], technique='SMT equivalence with the definitional sum-product over symbolic execution of the real code')
    sys.exit(code)


if __name__ == '__main__':
    main()
