"""C11 -- solver options change cost, never the answer."""
import itertools
import json
import math
import os
import random
import subprocess
import sys
import time
import common
import boot      # noqa
import torch
import fggs
import z3
import sx
import symx
import lib
import symvals
import tensorlib as TL
from oracles import c03_run, c11_run
from gen import grammars, recursive
import c03
from c03 import B3
from c02 import B2

PID = 'C11'


def jp_cases(tier, seed):
    """gradient cases of C03 with j_precompute=True (Real semiring; the option only affects the Real Jacobian)"""
    cs = []
    for c in c03.cases(tier, seed):
        if c['semiring'] == 'real' and 'scc' not in c:
            d = dict(c)
            d['j_precompute'] = True
            d['method'] = 'newton'
            cs.append(d)
        elif 'scc' in c:
            d = dict(c)
            d['j_precompute'] = True
            cs.append(d)
    return cs


def cross_cases(tier, seed):
    rng = random.Random(seed)
    fam = grammars.feature_set(3) + rng.sample(grammars.single_rule_family(3), 40 if tier == 'quick' else 300) + grammars.two_level_family(rng, 30 if tier == 'quick' else 200, 3)
    cs = []
    for gi, spec in enumerate(fam):
        if grammars.is_recursive(spec):
            continue
        nunk = sum(math.prod(s) for s in grammars.weight_shapes(spec).values())
        if 0 < nunk <= 8:
            cs.append({'spec': spec, 'method': ['fixed-point', 'newton', 'linear'][gi % 3]})
    return cs


class BX(B2):
    def __init__(self, kind, dtype, inject):
        super().__init__(kind, dtype)
        self.inject = inject


def run_cross(col, case):
    spec = case['spec']
    shapes = grammars.weight_shapes(spec)
    names = sorted(shapes)
    nunk = sum(math.prod(shapes[n]) for n in names)
    feats = dict(grammars.features(spec))
    feats.update({'part': 'cross_semiring', 'method': case['method']})
    col.case(('cross', json.dumps(spec, sort_keys=True), case['method']), nontrivial=True, sample={'part': 'cross_semiring', 'rules': spec['rules']})
    profiles = [tuple('P' * nunk)] + [tuple('Z' if i == j else 'P' for i in range(nunk)) for j in range(min(nunk, 3))]
    # infinite weights, alone and next to a zero weight (0 x inf = 0 in every semiring): a seeded sample of ordered (inf, zero) position pairs
    profiles += [tuple('I' if i == j else 'P' for i in range(nunk)) for j in range(min(nunk, 2))]
    prng = random.Random(nunk * 1000 + len(spec['rules']))
    pairs = [(i, j) for i in range(nunk) for j in range(nunk) if i != j]
    for i, j in prng.sample(pairs, min(len(pairs), 6)):
        profiles.append(tuple('I' if k == i else 'Z' if k == j else 'P' for k in range(nunk)))
    for prof in profiles:
        V = symvals.Vars()
        w = {}
        c = 0
        for n in names:
            row = []
            for i in range(math.prod(shapes[n])):
                row.append(V.elem(f'{n}_{i}', 'real', prof[c]))
                c += 1
            w[n] = row
        Bs = {'real': BX('real', torch.float64, lambda x: x),
              'log': BX('log', torch.float64, lambda x: sx.LogV(x)),
              'viterbi': BX('viterbi', torch.float64, lambda x: sx.LogV(x)),
              'bool': BX('bool', torch.float64, lambda x: sx.gt(x, 0.0))}

        def body():
            sx.ABSTRACT[0] = True
            sx.LOG_MODE[0] = True
            res = c11_run.cross_semiring(Bs, case, w)
            claims = []
            (sr_, fr), (sl, fl), (sv, fv), (sb, fb) = res['real'], res['log'], res['viterbi'], res['bool']
            claims.append((sr_ == sl == sv == sb, 'same_shape'))
            if sr_ == sl == sv == sb:
                claims.append((sx.And(*[sx.same(sx.as_log(l).e, r) for l, r in zip(fl, fr)]), 'log_is_log_of_real'))
                claims.append((sx.And(*[sx.Beq(sx.to_bool(b), sx.gt(r, 0.0)) for b, r in zip(fb, fr)]), 'bool_is_support_of_real'))
                claims.append((sx.And(*[sx.le(sx.as_log(v).e, sx.as_log(l).e) for v, l in zip(fv, fl)]), 'viterbi_below_log'))
            return claims

        def make_replay(vals, name):
            return {'part': 'cross', 'spec': spec, 'method': case['method'], 'values': TL.jsonable(vals), 'profile': ''.join(prof), 'claim': name}
        TL.explore(col, V, body, feats, make_replay, label='cross_semiring', timeout_ms=30000)


def run_jp(col, case):
    v0 = len(col.violations)
    c03.run_case(col, case)
    for v in col.violations[v0:]:
        v['features']['part'] = 'j_precompute'
        v['replay']['part'] = 'j_precompute'
        f = grammars.features(case['spec'])
        v['features']['edges_ge_3_or_edgeless_internal'] = bool(f['max_edges_in_rule'] >= 3 or f['edgeless_internal'])
        v['features']['raises'] = 'exception' in v['features']


def shard(shard_i, nshards, tier, seed):
    col = lib.Collector()
    sx.FORK[0] = False
    for k, c in enumerate(jp_cases(tier, seed)):
        if k % nshards == shard_i:
            run_jp(col, c)
    for k, c in enumerate(cross_cases(tier, seed)):
        if k % nshards == shard_i:
            run_cross(col, c)
    res = col.result(symx.STATS)
    # ---- python -O / -OO: the same harnesses in a child interpreter without assert statements and __debug__ blocks
    for flag in ('-OO',) if tier == 'quick' else ('-O', '-OO'):
        env = dict(os.environ)
        p = subprocess.run(['python3-vt', flag, '-B', os.path.join(lib.VERIF, 'checks', 'c11_oo.py'), tier, str(seed), str(shard_i), str(nshards)],
                           capture_output=True, text=True, env=env, timeout=3000)
        line = [l for l in p.stdout.splitlines() if l.startswith('C11OO ')]
        if not line:
            res['inconclusive'].append({'label': f'python {flag} child', 'why': (p.stderr or p.stdout)[-800:]})
            continue
        out = json.loads(line[0][6:])
        if out['assert_active'] or out['debug']:
            res['inconclusive'].append({'label': f'python {flag} child', 'why': 'assertions still active in the child'})
        for mod, r in out['results'].items():
            res['evaluations'] += r['evaluations']
            res['nontrivial'] += [f'{flag}:{mod}:{x}' for x in r['nontrivial']]
            res['inconclusive'] += r['inconclusive']
            for k in ('paths', 'queries', 'obligations', 'discharged'):
                res['stats'][k] = res['stats'].get(k, 0) + r['stats'].get(k, 0)
            res['stats']['solver_time_s'] = res['stats'].get('solver_time_s', 0) + r['stats'].get('solver_time_s', 0)
            origin_known = lib.load_known(mod.upper())
            for v in r['violations']:
                if lib.match_known(origin_known, v) is not None:
                    continue          # a listed finding of the original property (reported there), not an effect of the interpreter flag
                v['features']['part'] = 'python' + flag
                v['features']['origin'] = mod.upper()
                v['replay'] = {'part': 'oo', 'flag': flag, 'origin': mod.upper(), 'payload': {'property': mod.upper(), 'kind': v['kind'], 'features': v['features'], 'replay': v['replay'], 'note': ''}}
                res['violations'].append(v)
    res['functions'] = sorted(set(res['functions']) | {'fggs.sum_product.J_precompute_products', 'fggs.sum_product.compute_products', 'fggs.sum_product.multiply_next_edge'})
    return res


def main():
    a = common.args()
    if a.replay:
        common.do_replay(PID, a.replay)
    t0 = time.time()
    merged = lib.merge(lib.run_sharded('c11', 'shard', a.tier, a.seed))
    code = lib.finish(
        PID, a.tier, a.seed, 'other', merged, t0,
        rule='(a) j_precompute=True: the gradient cases of C03 (non-recursive grammars incl. rules with >=3 edges, nodes private to a prefix of the edge list, edgeless nodes; recursive scalar SCCs) re-decided with the pre-computed Jacobian; '
             '(b) interpreter optimisation: a subset of the C01, C07, C03, C06 and C13 harnesses re-run in a child `python3-vt -OO` (quick) / `-O` and `-OO` (thorough), where assert statements and `if __debug__:` blocks of fggs do not exist; '
             '(c) cross-semiring: one grammar evaluated in all four semirings on related symbolic inputs (w, log w, log w, w>0); method and dtype variation is part of C01 (every method name, float32/float64, all decided against one oracle).',
        explanation='All obligations are SMT queries over symbolic execution of the real code: (a) gradients equal the forward-mode derivatives of the definitional sum-product also with j_precompute; (b) the same obligations hold when assertions are compiled away '
                    '(a crash there is a violation: an assert was doing work); (c) exp(Log result) == Real result, Bool result == (Real result > 0), Viterbi result <= Log result, per cell for all weights.',
        bounds={'weights': '<=10 (a), <=8 (c)', 'oo_subset_cases_per_check': 40 if a.tier == 'quick' else 400},
        assumptions=['finite floats exact reals: "within floating-point tolerance" is decided as exact equality of real-valued terms', 'Real weights >= 0; regimes: positive weights + single-zero profiles'],
        regimes=['P', 'S'], technique='SMT equivalence over symbolic execution under option/semiring/interpreter-mode variation')
    sys.exit(code)


if __name__ == '__main__':
    main()
