"""C10 -- tree decompositions are valid; exact methods are optimal."""
import itertools
import sys
import time
import common
import boot          # noqa
import z3
import symx
import lib
from oracles import c10_run, treewidth_smt

PID = 'C10'


def shard(shard_i, nshards, tier, seed):
    col = lib.Collector()
    sizes = [0, 1, 2, 3, 4, 5] if tier == 'quick' else [0, 1, 2, 3, 4, 5, 6]
    for n in sizes:
        pairs = [(i, j) for i in range(n) for j in range(i + 1, n)]
        E = {p: z3.Bool(f'e_{p[0]}_{p[1]}') for p in pairs}
        k = min(len(pairs), (nshards - 1).bit_length())
        if shard_i >= 2 ** k:
            continue
        fixed = [E[pairs[i]] if (shard_i >> i) & 1 else z3.Not(E[pairs[i]]) for i in range(k)]
        eng = symx.Engine(assumptions=fixed)

        def body():
            edges = [p for bi, p in enumerate(pairs) if symx.branch(E[p], free=bi >= k)]
            tw = treewidth_smt.treewidth(n, edges)
            return n, edges, tw, c10_run.run(n, edges, tw)
        with lib.Functions() as fns:
            paths = eng.run(body)
        col.functions |= fns.names
        for p in paths:
            if p.exc is not None:
                col.violation('treedec', {'exception': type(p.exc).__name__}, {'n': n, 'edges': []}, note=repr(p.exc))
                continue
            n_, edges, tw, problems = p.value
            col.case((n_, tuple(edges)), nontrivial=n_ >= 3, sample={'n': n_, 'edges': edges, 'treewidth': tw})
            col.check(not problems)
            for meth, msg in problems[:3]:
                iso = any(all(v not in e for e in edges) for v in range(n_))
                col.violation('treedec', {'method': meth, 'has_isolated_vertex': iso, 'kind': msg.split(':')[0].split(' ')[0]},
                              {'n': n_, 'edges': [list(e) for e in edges]}, note=f'{meth}: {msg}')
    hard_cores(col, shard_i, nshards, tier, seed)
    r = col.result(symx.STATS)
    r['extra']['treewidth_smt_queries'] = len(treewidth_smt._cache)
    return r


def hard_cores(col, shard_i, nshards, tier, seed):
    """Graphs on 7-9 vertices around cores on which the min_fill heuristic is not optimal (so that the branch-and-bound search of
    quickbb and the separator search of acb actually run): a set of edge slots is flipped symbolically and the insertion order of the
    vertices (dict order: decides ties and the order in which reduction rules meet the vertices) is a symbolic choice."""
    import json, os, random
    cores = json.load(open(os.path.join(lib.VERIF, 'gen', 'hard_graphs.json')))
    nflip = 4 if tier == 'quick' else 8
    nord = 3 if tier == 'quick' else 6
    for ci, core in enumerate(cores):
        if ci % nshards != shard_i:
            continue
        n = core['n']
        base = {tuple(sorted(e)) for e in core['edges']}
        rng = random.Random(1000 * seed + ci)
        pairs = [(i, j) for i in range(n) for j in range(i + 1, n)]
        slots = rng.sample(pairs, nflip)
        orders = [list(core['key_order']), list(range(n)), list(reversed(range(n)))]
        while len(orders) < nord:
            o = list(range(n))
            rng.shuffle(o)
            orders.append(o)
        orders = orders[:nord]
        Fl = [z3.Bool(f'flip_{a}_{b}') for a, b in slots]
        O = z3.Int('key_order')
        eng = symx.Engine(assumptions=[O >= 0, O < len(orders)])

        def body():
            flips = {p for p, f in zip(slots, Fl) if symx.branch(f, free=True)}
            order = orders[symx.choose(O, 0, len(orders), free=True)]
            edges = sorted(base ^ flips)
            tw = treewidth_smt.treewidth(n, edges)
            return n, edges, tw, order, c10_run.run(n, edges, tw, order)
        for p in eng.run(body):
            if p.exc is not None:
                col.violation('treedec', {'exception': type(p.exc).__name__, 'part': 'hard_core'}, {'n': n, 'edges': []}, note=repr(p.exc))
                continue
            n_, edges, tw, order, problems = p.value
            col.case((n_, tuple(edges), tuple(order)), nontrivial=True, sample={'n': n_, 'edges': edges, 'treewidth': tw, 'key_order': order})
            col.check(not problems)
            for meth, msg in problems[:3]:
                col.violation('treedec', {'method': meth, 'part': 'hard_core', 'kind': msg.split(':')[0].split(' ')[0]},
                              {'n': n_, 'edges': [list(e) for e in edges], 'order': order}, note=f'{meth}: {msg}')


def main():
    a = common.args()
    if a.replay:
        common.do_replay(PID, a.replay)
    t0 = time.time()
    merged = lib.merge(lib.run_sharded('c10', 'shard', a.tier, a.seed))
    nmax = 5 if a.tier == 'quick' else 6
    code = lib.finish(
        PID, a.tier, a.seed, 'other', merged, t0,
        rule='every simple undirected graph on n<=%d vertices (symbolic adjacency bits: connected or not, isolated vertices, empty graph, cliques, trees, cycles), each with the three methods min_fill, quickbb, acb '
             'and the helpers min_fill / minor_min_width / quickbb; plus neighbourhoods (symbolic edge flips, symbolic vertex insertion order) of 16 cores on 7-9 vertices on which min_fill is not optimal, '
             'so that the exact searches run past their heuristic start; non-trivial = n>=3; distinct = distinct labelled graph (x insertion order for the cores)' % nmax,
        explanation='The adjacency matrix is a vector of solver variables; the symbolic executor partitions the whole graph space (every path = one feasible assignment). On each path the real tree_decomposition code runs and the result is checked for '
                    'validity (tree, vertex/edge cover, running intersection); the exact treewidth used to judge acb/quickbb optimality and the lower/upper bound helpers comes from an independent SMT oracle '
                    '(ordering-based encoding: "an elimination order of width <= k exists", decided sat for k = tw and unsat for k = tw-1).',
        bounds={'vertices': nmax, 'hard_cores': '16 graphs on 7-9 vertices where min_fill is not optimal, x 2^%d symbolic edge flips x %d vertex insertion orders' % ((4, 3) if a.tier == 'quick' else (8, 6))}, assumptions=['vertices are ints; graphs are simple (the primal graphs factorize_rule builds)'],
        exhaustive=True, technique='bounded symbolic execution (z3 path forking) + SMT treewidth oracle')
    sys.exit(code)


if __name__ == '__main__':
    main()
