"""C10 -- tree decompositions are valid; exact methods are optimal."""
import itertools
import sys
import time
import common
import boot          # noqa
import z3
import symx
import lib
from oracles import c10_run, treewidth_smt

PID = 'C10'


def shard(shard_i, nshards, tier, seed):
    col = lib.Collector()
    sizes = [0, 1, 2, 3, 4, 5] if tier == 'quick' else [0, 1, 2, 3, 4, 5, 6]
    for n in sizes:
        pairs = [(i, j) for i in range(n) for j in range(i + 1, n)]
        E = {p: z3.Bool(f'e_{p[0]}_{p[1]}') for p in pairs}
        k = min(len(pairs), (nshards - 1).bit_length())
        if shard_i >= 2 ** k:
            continue
        fixed = [E[pairs[i]] if (shard_i >> i) & 1 else z3.Not(E[pairs[i]]) for i in range(k)]
        eng = symx.Engine(assumptions=fixed)

        def body():
            edges = [p for bi, p in enumerate(pairs) if symx.branch(E[p], free=bi >= k)]
            tw = treewidth_smt.treewidth(n, edges)
            return n, edges, tw, c10_run.run(n, edges, tw)
        with lib.Functions() as fns:
            paths = eng.run(body)
        col.functions |= fns.names
        for p in paths:
            if p.exc is not None:
                col.violation('treedec', {'exception': type(p.exc).__name__}, {'n': n, 'edges': []}, note=repr(p.exc))
                continue
            n_, edges, tw, problems = p.value
            col.case((n_, tuple(edges)), nontrivial=n_ >= 3, sample={'n': n_, 'edges': edges, 'treewidth': tw})
            col.check(not problems)
            for meth, msg in problems[:3]:
                iso = any(all(v not in e for e in edges) for v in range(n_))
                col.violation('treedec', {'method': meth, 'has_isolated_vertex': iso, 'kind': msg.split(':')[0].split(' ')[0]},
                              {'n': n_, 'edges': [list(e) for e in edges]}, note=f'{meth}: {msg}')
    r = col.result(symx.STATS)
    r['extra']['treewidth_smt_queries'] = len(treewidth_smt._cache)
    return r


def main():
    a = common.args()
    if a.replay:
        common.do_replay(PID, a.replay)
    t0 = time.time()
    merged = lib.merge(lib.run_sharded('c10', 'shard', a.tier, a.seed))
    nmax = 5 if a.tier == 'quick' else 6
    code = lib.finish(
        PID, a.tier, a.seed, 'other', merged, t0,
        rule='every simple undirected graph on n<=%d vertices (symbolic adjacency bits: connected or not, isolated vertices, empty graph, cliques, trees, cycles), each with the three methods min_fill, quickbb, acb '
             'and the helpers min_fill / minor_min_width / quickbb; non-trivial = n>=3; distinct = distinct labelled graph' % nmax,
        explanation='The adjacency matrix is a vector of solver variables; the symbolic executor partitions the whole graph space (every path = one feasible assignment). On each path the real tree_decomposition code runs and the result is checked for '
                    'validity (tree, vertex/edge cover, running intersection); the exact treewidth used to judge acb/quickbb optimality and the lower/upper bound helpers comes from an independent SMT oracle '
                    '(ordering-based encoding: "an elimination order of width <= k exists", decided sat for k = tw and unsat for k = tw-1).',
        bounds={'vertices': nmax}, assumptions=['vertices are ints; graphs are simple (the primal graphs factorize_rule builds)'],
        exhaustive=True, technique='bounded symbolic execution (z3 path forking) + SMT treewidth oracle')
    sys.exit(code)


if __name__ == '__main__':
    main()
