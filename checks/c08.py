"""C08 -- the four semirings obey the semiring laws on their whole value domain."""
import itertools
import math
import sys
import time
import common
import boot      # noqa
import torch
import fggs
import z3
import sx
import symx
import lib
import symvals
import tensorlib as TL
from fggs import indices
from oracles import semiring as OS, c08_laws as L
from gen import patterns

PID = 'C08'
KINDS = ['real', 'log', 'viterbi', 'bool']


class SymBackend:
    def __init__(self, kind, dtype):
        self.kind = kind
        self.torch = torch
        self.fggs = fggs
        self.indices = indices
        self.O = OS.BY_NAME[kind]
        self.dtype = torch.bool if kind == 'bool' else dtype
        self.sr = symvals.semiring_obj(fggs, kind, dtype)
        self.pyzero, self.pyone, self.pytop = {
            'real': (0.0, 1.0, math.inf), 'log': (-math.inf, 0.0, math.inf),
            'viterbi': (-math.inf, 0.0, math.inf), 'bool': (False, True, True)}[kind]

    def tensor(self, elems, size):
        return torch.Tensor._new(list(elems), tuple(size), self.dtype)

    def int_tensor(self, m):
        return torch.Tensor._new([m], (), torch.int64)

    def const(self, x):
        return x

    def oracle_ctx(self):
        return sx.no_abstract()

    def from_int_oracle(self, m):
        return self.O.from_int(m)


def claims_of(B, items):
    out = []
    for name, lhs, rhs, prem in items:
        if lhs is None:                      # (premise, conclusion) pair
            pre, concl = prem
            out.append((sx.Implies(pre, concl), name))
        elif prem is None:
            out.append((TL.all_same(lhs, rhs), name))
        else:
            out.append((sx.And(*[sx.Implies(p, sx.same(a, b)) for p, a, b in zip(prem, lhs, rhs)]), name))
    return out


def cases(tier, seed=0):
    """(law, params) list"""
    cs = []
    dts = ['float32', 'float64']
    for kind in KINDS:
        for dt in (dts if kind != 'bool' else ['bool']):
            cs.append((kind, dt, 'algebra', None))
            cs.append((kind, dt, 'sum', None))
            cs.append((kind, dt, 'star', None))
            cs.append((kind, dt, 'from_int', None))
            if kind == 'log':
                cs.append((kind, dt, 'star_absorb', None))
            cs.append((kind, dt, 'eye', None))
            # binary ops on Tensors
            for op in ('add', 'mul', 'sub'):
                for size in ([], [2]):
                    spec = {'rep': 'tensor', 'size': size}
                    cs.append((kind, dt, 'binary', (op, spec, spec)))
            # binary ops on PatternedTensors of a common shape
            shapes = [(2,), (2, 2)] if tier == 'quick' else [(2,), (3,), (2, 2), (2, 3)]
            if dt == 'float64' and tier == 'quick':
                shapes = [(2,)]
            for shape in shapes:
                rs = patterns.recipes(shape, depth=1, max_phys=4, layouts=('contig', 'expand') if len(shape) == 1 or tier != 'quick' else ('contig',))
                specs = [{'rep': 'pt', 'recipe': r, 'default': d} for r in rs for d in ('zero', 'one', 'top')]
                pairs = list(itertools.product(specs, specs))
                if len(pairs) > (300 if tier == 'quick' else 3000):
                    # keep all pairs whose defaults are (zero,zero) plus a deterministic stride sample of the rest
                    base = [p for p in pairs if p[0]['default'] == 'zero' and p[1]['default'] == 'zero']
                    rest = [p for p in pairs if p not in base]
                    step = max(1, len(rest) // (150 if tier == 'quick' else 1500))
                    pairs = base[: (200 if tier == 'quick' else 2000)] + rest[::step]
                for op in ('add', 'mul', 'sub'):
                    for a, b in pairs:
                        cs.append((kind, dt, 'binary', (op, a, b)))
    return cs


def run_case(col, case):
    kind, dt, law, params = case
    dtype = {'float32': torch.float32, 'float64': torch.float64, 'bool': torch.bool}[dt]
    sx.LOG_MODE[0] = (kind == 'log')
    V = symvals.Vars()
    feats = {'semiring': kind, 'dtype': dt, 'law': law}
    payload = {'semiring': kind, 'dtype': dt, 'law': law}
    B = SymBackend(kind, dtype)
    if law == 'binary':
        op, xspec, yspec = params
        feats.update({'op': op, 'xrep': xspec['rep'], 'yrep': yspec['rep']})
        if xspec['rep'] == 'pt':
            feats.update({'xdefault': xspec['default'], 'ydefault': yspec['default']})
        payload.update({'op': op, 'xspec': xspec, 'yspec': yspec})
        xs = [V.elem(f'x{i}', kind, 'T') for i in range(L.nelems(xspec))]
        ys = [V.elem(f'y{i}', kind, 'T') for i in range(L.nelems(yspec))]

        def body():
            return claims_of(B, L.law_binary(B, op, xs, ys, xspec, yspec))
        key = (kind, dt, law, op, repr(xspec), repr(yspec))
    elif law == 'algebra':
        xs = [V.elem(f'x{i}', kind, 'T') for i in range(3)]
        body = lambda: claims_of(B, L.law_algebra(B, xs))
        key = (kind, dt, law)
    elif law == 'sum':
        xs = [V.elem(f'x{i}', kind, 'T') for i in range(4)]
        body = lambda: claims_of(B, L.law_sum(B, xs))
        key = (kind, dt, law)
    elif law == 'star':
        xs = [V.elem('x0', kind, 'T')]
        y = V.elem('y', kind, 'T')
        body = lambda: claims_of(B, L.law_star(B, xs, y))
        key = (kind, dt, law)
    elif law == 'star_absorb':
        # the one float-rounding effect this check models: exp(x) rounds to 1.0 for x in (log(1-u), 0), u = half an ulp of 1
        u = 2.0 ** -25 if dt == 'float32' else 2.0 ** -54
        xs = [V.elem('x0', kind, 'P')]
        v = z3.Real('x0')
        V.assumptions += [v < 1, 1 - v < z3.Q(1, 2 ** (25 if dt == 'float32' else 54))]

        def body():
            sx.EXP_ABSORB[0] = u
            try:
                return claims_of(B, L.law_star_absorb(B, xs))
            finally:
                sx.EXP_ABSORB[0] = None
        key = (kind, dt, law)
    elif law == 'from_int':
        m, n = z3.Int('m'), z3.Int('n')
        V.assumptions += [m >= 0, m <= 6, n >= 0, n <= 6]
        V.items += [('m', m), ('n', n)]
        body = lambda: claims_of(B, L.law_from_int(B, m, n))
        key = (kind, dt, law)
    elif law == 'eye':
        body = lambda: claims_of(B, L.law_eye(B))
        key = (kind, dt, law)
    col.case(key, nontrivial=True, sample={'case': [kind, dt, law, repr(params)[:200]]})

    def make_replay(vals, name):
        d = dict(payload)
        d['values'] = TL.jsonable(vals)
        d['claim'] = name
        return d
    TL.explore(col, V, body, feats, make_replay, label=f'{kind}/{dt}/{law}')


def shard(i, n, tier, seed):
    col = lib.Collector()
    cs = cases(tier)
    with lib.Functions() as fns:
        for c in cs[i:i + 3 * n:n]:
            run_case(col, c)
    col.functions |= fns.names
    for c in cs[i + 3 * n::n]:
        run_case(col, c)
    col.extra['cases_total'] = 0
    return col.result(symx.STATS)


def main():
    a = common.args()
    if a.replay:
        common.do_replay(PID, a.replay)
    t0 = time.time()
    merged = lib.merge(lib.run_pool('c08', a.tier, a.seed))
    code = lib.finish(
        PID, a.tier, a.seed, 'other', merged, t0,
        rule='one case = (semiring, dtype, law, operand representations); laws: add/mul/sub against the mathematical definition on '
             'Tensor operands (0-d, 1-d) and on every ordered pair of PatternedTensors from the pattern family over a common shape x '
             'defaults {zero, one, infinite}; associativity, commutativity, distributivity, identities, annihilation, sum/add_, star '
             '(solution + least via Knaster-Tarski query with a fresh y), from_int homomorphism with symbolic naturals m,n<=6, eye/zeros. '
             'All carrier elements are tagged symbolic values (regime T): finite, zero and the infinite element at once. distinct = distinct case tuple',
        explanation='The real Semiring methods (and PatternedTensor.add/mul/sub/logaddexp/maximum/nan_to_num_/relu_/where/... they call) are '
                    'executed on the symtorch model with z3 terms as elements; each law is a z3 query `exists operands in carrier: lhs != rhs`; '
                    'unsat = the law holds for every carrier value incl. 0, inf, -inf (exact reals for finite values). sat models are replayed on real torch.',
        bounds={'vector_len': 3, 'pattern_shapes': 'quick (2,),(2,2); thorough +(3,),(2,3)', 'from_int_naturals': '0..6',
                'unknowns_per_query': '<= 8 tagged'},
        assumptions=['finite floats are exact reals: rounding, overflow, subnormals ("huge values") are outside the claim',
                     'Log semiring: log-domain floats represented by their exponential (exp is a semiring isomorphism); exp(-1), exp(+-FLT_MAX) are boxed uninterpreted constants',
                     'nan is not a carrier element'],
        regimes=['T'], stubs=[], technique='symbolic execution on a z3-valued tensor model; SMT validity queries per law; Knaster-Tarski leastness query')
    sys.exit(code)


if __name__ == '__main__':
    main()
