"""C05 -- factorization preserves the grammar's meaning and never widens a rule."""
import itertools
import json
import math
import random
import sys
import time
import common
import boot      # noqa
import torch
import fggs
import z3
import sx
import symx
import lib
import symvals
import tensorlib as TL
from oracles import c05_run as R
from gen import grammars, bigrules
from c02 import B2
from c06 import claims_of

PID = 'C05'
METHODS = ['min_fill', 'quickbb', 'acb']


def cases(tier, seed=0):
    fam = bigrules.family(tier, seed) + grammars.feature_set(3)
    cs = []
    for gi, spec in enumerate(fam):
        if grammars.is_recursive(spec):
            continue
        for method in METHODS:
            kinds = ['real', 'viterbi', 'bool', 'log'] if gi < 18 else [['real', 'viterbi', 'bool', 'log'][(gi + METHODS.index(method)) % 4]]
            for k, kind in enumerate(kinds):
                if kind == 'viterbi' and sum(math.prod(s) for s in grammars.weight_shapes(spec).values()) > 18:
                    continue       # max-plus equality over more than 18 weights exceeds the solver budget (the structural obligations run in the other semirings)
                cs.append({'spec': spec, 'method': method, 'semiring': kind, 'structural': k == 0, 'explicit_ids': gi % 2 == 0})
    return cs


def run_case(col, case):
    kind = case['semiring']
    spec = case['spec']
    sx.LOG_MODE[0] = (kind == 'log')
    sx.FORK[0] = False
    sx.ABSTRACT[0] = kind in ('real', 'log')
    shapes = grammars.weight_shapes(spec)
    names = sorted(shapes)
    feats = dict(grammars.features(spec))
    feats.update({'semiring': kind, 'method': case['method']})
    col.case(json.dumps([spec, kind, case['method']], sort_keys=True), nontrivial=True, sample={'rules': spec['rules'], 'method': case['method'], 'semiring': kind})
    V = symvals.Vars()
    cls = 'T' if kind in ('viterbi', 'bool') else 'P'
    flat = {n: [V.elem(f'{n}_{i}', kind, cls) for i in range(math.prod(shapes[n]))] for n in names}
    B = B2(kind, torch.float32)

    def body():
        problems, items = R.run(B, case, flat)
        claims = [(not problems, 'structure', {'problem': (problems or [''])[0][:100]})]
        claims += claims_of(items)
        return claims

    def make_replay(vals, name):
        return {'spec': spec, 'method': case['method'], 'semiring': kind, 'structural': case['structural'], 'explicit_ids': case['explicit_ids'],
                'values': TL.jsonable(vals), 'claim': name}
    TL.explore(col, V, body, feats, make_replay, label=f"factorize/{case['method']}/{kind}", timeout_ms=60000)


def main():
    a = common.args()
    if a.replay:
        common.do_replay(PID, a.replay)
    t0 = time.time()
    merged = lib.merge(lib.run_pool('c05', a.tier, a.seed, case_timeout=200))
    code = lib.finish(
        PID, a.tier, a.seed, 'other', merged, t0,
        rule='case = (grammar with a large right-hand side, tree-decomposition method, semiring). Rules: hand-written shapes (chain, star, 4-cycle, triangle+pendant, two components, isolated internal/external nodes, only isolated nodes, '
             'nullary edge, repeated attachment, arity-3 factor, duplicate external, nonterminal edges) and a seeded family with 3-5 nodes, 1-5 edges of arity 0-3, <=2 externals; plus the C01 feature set. All factor weights symbolic.',
        explanation='Structural layer (on the path): factorize_rule / factorize_hrg / factorize_fgg run on the real code; the requested method must reach tree_decomposition (observed), fresh nonterminal names are new and distinct, no new rule has more nodes '
                    'than its source, and inlining every fresh nonterminal by its unique rule reproduces the original rule (same nodes, every original edge exactly once, children attached to exactly their externals, shared nodes only through externals). '
                    'Semantic layer: sum_product of the factorized FGG is decided equal to that of the original, per cell, for all weight values (z3).',
        bounds={'rule_nodes': 5, 'rule_edges': 5, 'weights': '<=26'},
        assumptions=['factorize shares Node/Edge objects with the original rule (identity-based inlining check)', 'regimes: T for Viterbi/Bool, positive weights for Real/Log'],
        regimes=['T', 'P'], technique='symbolic execution + SMT equivalence of sum-products; structural inlining check per path')
    sys.exit(code)


if __name__ == '__main__':
    main()
