"""C12 -- results do not depend on how the grammar is written down."""
import itertools
import json
import math
import random
import sys
import time
import common
import boot      # noqa
import torch
import fggs
import z3
import sx
import symx
import lib
import symvals
import tensorlib as TL
from oracles import c12_run as R
from gen import grammars, recursive, presentations
from c03 import B3
from c06 import claims_of

PID = 'C12'
TIER = ['quick']


def grammar_list(tier, seed):
    rng = random.Random(seed)
    fs = grammars.feature_set(3)
    out = [{'spec': s, 'recursive': False, 'linear': True, 'name': f'feature{i}'} for i, s in enumerate(fs) if len(s['rules']) >= 1 and sum(len(r['edges']) for r in s['rules']) >= 2]
    if tier == 'quick':
        out = out[::2]
    out += [{'spec': s, 'recursive': False, 'linear': True, 'name': f'twolevel{i}'} for i, s in enumerate(grammars.two_level_family(rng, 6 if tier == 'quick' else 60, 3))]
    for g in recursive.family():
        if g['name'] in ('hmm', 'two_cycle', 'start_recursive', 'two_sccs', 'scalar_linear'):
            out.append({'spec': g['spec'], 'recursive': True, 'linear': g['linear'], 'name': g['name']})
    good = []
    for g in out:
        if not g['recursive'] and grammars.is_recursive(g['spec']):
            continue
        nunk = sum(math.prod(s) for s in grammars.weight_shapes(g['spec']).values())
        if 0 < nunk <= 12:
            good.append(g)
    return good


def cases(tier, seed=0):
    TIER[0] = tier
    cs = []
    for gi, g in enumerate(grammar_list(tier, seed)):
        kinds = ['real', 'viterbi', 'bool', 'log']
        for ki, kind in enumerate(kinds):
            if g['recursive']:
                if kind == 'log':
                    continue
                method, opts = ('linear', {}) if kind == 'real' else ('fixed-point', {'tol': 0, 'kmax': 8})
            else:
                method, opts = ['fixed-point', 'newton', 'linear'][(gi + ki) % 3], {}
            if tier == 'quick' and not g['recursive'] and (gi + ki) % 2:
                continue
            cs.append({'name': g['name'], 'spec': g['spec'], 'recursive': g['recursive'], 'semiring': kind, 'method': method, 'opts': opts,
                       'grad': kind == 'real' and not g['recursive']})
    return cs


def run_case(col, case):
    kind = case['semiring']
    spec = case['spec']
    sx.LOG_MODE[0] = (kind == 'log')
    sx.FORK[0] = False
    sx.ABSTRACT[0] = kind in ('real', 'log') and not case['recursive']
    shapes = grammars.weight_shapes(spec)
    names = sorted(shapes)
    nr = len(spec['rules'])
    rperms = presentations.perms(nr)
    if len(rperms) > 6:
        rr = random.Random(nr)
        rperms = [rperms[0], rperms[-1]] + rr.sample(rperms[1:-1], 4)
    light = case['recursive'] and kind == 'real'      # nonlinear solver terms: fewer presentations (the others are covered in the other semirings)
    RP = z3.Int('rule_perm')
    ne = 1 if TIER[0] == 'quick' else min(nr, 2)
    EP = [z3.Int(f'edge_perm{i}') for i in range(ne)]
    eperms = [presentations.perms(len(spec['rules'][i]['edges'])) for i in range(ne)]
    NR = [z3.Bool(f'node_rev{i}') for i in range(nr)]
    REN, EXP, VSW = z3.Bool('rename'), z3.Bool('explicit_ids'), z3.Bool('value_swap')
    V = symvals.Vars()
    cls = 'T' if kind in ('viterbi', 'bool') else 'P'
    flat = {}
    for n in names:
        row = []
        for i in range(math.prod(shapes[n])):
            e = V.elem(f'{n}_{i}', kind, cls)
            if kind == 'viterbi' and case['recursive']:
                V.assumptions += [z3.Not(e.pinf), e.v <= 0]
            row.append(e)
        flat[n] = row
    typ = spec['nonterminals'][spec['start']]
    nout = max(1, math.prod(spec['domains'][l] for l in typ))
    cot = [V.elem(f'c{j}', 'lin', 'F') for j in range(nout)] if case['grad'] else None
    V.assumptions += [RP >= 0, RP < len(rperms)] + [z3.And(e >= 0, e < len(p)) for e, p in zip(EP, eperms)]
    B = B3(kind, torch.float64)
    feats = {'grammar': case['name'], 'semiring': kind, 'method': case['method'], 'recursive': case['recursive']}
    col.case(json.dumps([case['name'], kind, case['method']]), nontrivial=True, sample={'grammar': case['name'], 'rules': spec['rules'], 'semiring': kind})
    holder = {}

    def body():
        choice = {'rule_perm': rperms[symx.choose(RP, 0, len(rperms), free=True)],
                  'edge_perm': {i: eperms[i][symx.choose(EP[i], 0, len(eperms[i]), free=True)] for i in range(len(EP))},
                  'node_rev': {} if light else {i: symx.branch(NR[i], free=True) for i in range(nr if TIER[0] != 'quick' else min(nr, 2))},
                  'rename': False if light else symx.branch(REN, free=True), 'value_swap': False if light else symx.branch(VSW, free=True)}
        choice['explicit_ids'] = choice['rename'] if (TIER[0] == 'quick' or light) else symx.branch(EXP, free=True)
        holder['choice'] = choice
        c = dict(case)
        c['choice'] = choice
        items = R.run(B, c, flat, cot)
        return [(cl, nm, {'presentation': json.dumps(choice, default=str)[:200]}) for cl, nm in claims_of(items)]

    def make_replay(vals, name):
        return {'name': case['name'], 'spec': spec, 'semiring': kind, 'method': case['method'], 'opts': case['opts'], 'grad': case['grad'],
                'choice': {k: (v if not isinstance(v, dict) else {str(a): b for a, b in v.items()}) for k, v in holder.get('choice', {}).items()},
                'values': TL.jsonable(vals), 'claim': name}
    TL.explore(col, V, body, feats, make_replay, label=f"presentation/{case['name']}/{kind}", timeout_ms=30000)


def main():
    a = common.args()
    if a.replay:
        common.do_replay(PID, a.replay)
    t0 = time.time()
    merged = lib.merge(lib.run_pool('c12', a.tier, a.seed, case_timeout=900))
    code = lib.finish(
        PID, a.tier, a.seed, 'other', merged, t0,
        rule='case = (grammar, semiring, method); inside a case the presentation is a vector of solver variables: permutation of the rule insertion order (all), of the edge insertion order of the first two rules (all), reversal of the node order of every rule, '
             'consistent renaming of all node/edge labels, explicit vs implicit ids, and a transposition of two values of domain T applied to every factor axis of that label. Grammars: feature set (>=2 edges), a seeded two-level sample, and recursive shapes '
             '(hmm, two_cycle, start_recursive, two_sccs, scalar_linear; Bool/Viterbi exact with tol=0, Real via method linear). All weights symbolic.',
        explanation='Both presentations are built through the public API and evaluated by sum_product on the z3-valued tensor model over the same symbolic weights; the solver decides cell-wise equality of the start tensors modulo the value permutation, and for Real '
                    'non-recursive grammars of the gradients (symbolic cotangent, permuted accordingly). The insertion orders play the role of a schedule: they fix dict/set iteration order inside the solvers.',
        bounds={'rules': 3, 'weights': '<=12', 'presentations_per_case': 'up to 6*36*2^r*8'},
        assumptions=['iteration orders induced by CPython hash randomisation of str ids are fixed by PYTHONHASHSEED=0 (not enumerated)', 'viterbi derivation weight: follows from C04 optimality per presentation (not re-decided here)'],
        regimes=['T', 'P'], technique='symbolic schedules (presentation choices as solver variables) + SMT equivalence of results')
    sys.exit(code)


if __name__ == '__main__':
    main()
