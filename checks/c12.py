"""C12 -- results do not depend on how the grammar is written down."""
import itertools
import json
import math
import random
import sys
import time
import common
import boot      # noqa
import torch
import fggs
import z3
import sx
import symx
import lib
import symvals
import tensorlib as TL
from oracles import c12_run as R
from gen import grammars, recursive, presentations
from c03 import B3
from c06 import claims_of

PID = 'C12'
TIER = ['quick']


def grammar_list(tier, seed):
    rng = random.Random(seed)
    fs = grammars.feature_set(3)
    out = [{'spec': s, 'recursive': False, 'linear': True, 'name': f'feature{i}'} for i, s in enumerate(fs) if len(s['rules']) >= 1 and sum(len(r['edges']) for r in s['rules']) >= 2]
    if tier == 'quick':
        out = out[::2]
    out += [{'spec': s, 'recursive': False, 'linear': True, 'name': f'twolevel{i}'} for i, s in enumerate(grammars.two_level_family(rng, 6 if tier == 'quick' else 60, 3))]
    for g in recursive.family():
        if g['name'] in ('hmm', 'two_cycle', 'start_recursive', 'two_sccs', 'scalar_linear', 'three_cycle_chord', 'four_cycle_chords'):
            out.append({'spec': g['spec'], 'recursive': True, 'linear': g['linear'], 'name': g['name']})
    # rules with two or three internal nodes (several arg-max pointers per rule), for the weight of the viterbi derivation
    def R(lhs, nodes, edges, ext):
        return {'lhs': lhs, 'nodes': nodes, 'edges': [{'label': l, 'att': a} for l, a in edges], 'ext': ext}
    dom = {'T': 2, 'U': 3}
    out.append({'spec': {'start': 'S', 'domains': dom, 'nonterminals': {'S': []}, 'terminals': {'f': ['T'], 'g': ['T'], 'h': ['T', 'T']},
                         'rules': [R('S', ['T', 'T'], [('f', [0]), ('g', [1]), ('h', [0, 1])], [])]}, 'recursive': False, 'linear': True, 'name': 'vit_two_internal', 'only': ['viterbi']})
    out.append({'spec': {'start': 'S', 'domains': dom, 'nonterminals': {'S': []}, 'terminals': {'q': ['T'], 'p': ['U']},
                         'rules': [R('S', ['T', 'U'], [('q', [0]), ('p', [1])], [])]}, 'recursive': False, 'linear': True, 'name': 'vit_two_internal_sizes', 'only': ['viterbi']})
    out.append({'spec': {'start': 'S', 'domains': dom, 'nonterminals': {'S': [], 'r': ['T', 'T']}, 'terminals': {'f': ['T'], 'g': ['T'], 'h': ['T', 'T']},
                         'rules': [R('S', ['T', 'T'], [('f', [0]), ('g', [1]), ('r', [0, 1])], []), R('r', ['T', 'T'], [('h', [0, 1])], [0, 1])]},
                'recursive': False, 'linear': True, 'name': 'vit_two_internal_nt', 'only': ['viterbi']})
    out.append({'spec': {'start': 'S', 'domains': dom, 'nonterminals': {'S': ['T']}, 'terminals': {'c': ['T'], 'b': ['T', 'T'], 'a': ['T', 'T']},
                         'rules': [R('S', ['T', 'T', 'T'], [('c', [2]), ('b', [1, 2]), ('a', [0, 1])], [0])]}, 'recursive': False, 'linear': True, 'name': 'vit_chain', 'only': ['viterbi']})
    # a duplicated external node together with unattached internal and external nodes (bookkeeping of disconnected nodes vs node order)
    out.append({'spec': {'start': 'S', 'domains': dom, 'nonterminals': {'S': ['T', 'T', 'T']}, 'terminals': {'f': ['T']},
                         'rules': [R('S', ['T', 'T', 'U'], [('f', [0])], [0, 0, 1])]}, 'recursive': False, 'linear': True, 'name': 'dup_ext_loose_nodes'})
    out.append({'spec': {'start': 'S', 'domains': dom, 'nonterminals': {'S': ['T', 'T']}, 'terminals': {'f': ['T']},
                         'rules': [R('S', ['T', 'U', 'T', 'U'], [('f', [0])], [0, 0])]}, 'recursive': False, 'linear': True, 'name': 'dup_ext_two_loose_internals'})
    # gradients of a recursive grammar across insertion orders: recursion weights concrete (see C03), the rest symbolic
    for g in recursive.linear_tensor_family():
        if g['name'] in ('three_cycle_chord_BC', 'vec_two_cycle', 'two_recursive_rules'):
            out.append({'spec': g['spec'], 'recursive': True, 'linear': True, 'name': 'grad_' + g['name'], 'only': ['real'], 'concrete': g['concrete']})
    good = []
    for g in out:
        if not g['recursive'] and grammars.is_recursive(g['spec']):
            continue
        nunk = sum(math.prod(s) for n, s in grammars.weight_shapes(g['spec']).items() if n not in g.get('concrete', {}))
        if 0 < nunk <= 12:
            good.append(g)
    return good


def has_derivation_everywhere(spec):
    """every start assignment has at least one derivation (Boolean sum-product with all-true weights): precondition of the viterbi clause"""
    from oracles import sumproduct, semiring_float as OF
    W = {n: {ix: True for ix in itertools.product(*[range(k) for k in shp])} for n, shp in grammars.weight_shapes(spec).items()}
    z = sumproduct.sum_products(OF.BY_NAME['bool'], spec, W)[spec['start']]
    return all(bool(v) for v in z.values())


def cases(tier, seed=0):
    TIER[0] = tier
    cs = []
    for gi, g in enumerate(grammar_list(tier, seed)):
        kinds = ['real', 'viterbi', 'bool', 'log']
        for ki, kind in enumerate(kinds):
            if kind not in g.get('only', kinds):
                continue
            if 'concrete' in g:
                cs.append({'name': g['name'], 'spec': g['spec'], 'recursive': True, 'semiring': 'real', 'method': 'linear', 'opts': {}, 'grad': True, 'concrete': g['concrete']})
                continue
            if g['recursive']:
                if kind == 'log':
                    continue
                if kind == 'real' and len(g['spec']['nonterminals']) > 4:
                    continue        # 4x4 symbolic linear system: beyond the linalg stub
                method, opts = ('linear', {}) if kind == 'real' else ('fixed-point', {'tol': 0, 'kmax': 8})
                if kind in ('bool', 'viterbi') and g['name'] in ('three_cycle_chord', 'four_cycle_chords', 'two_cycle'):
                    # the block elimination of multi_solve in the idempotent semirings, too (pivot order depends on the insertion order)
                    cs.append({'name': g['name'], 'spec': g['spec'], 'recursive': True, 'semiring': kind, 'method': 'linear', 'opts': {}, 'grad': False})
            else:
                method, opts = ['fixed-point', 'newton', 'linear'][(gi + ki) % 3], {}
            if tier == 'quick' and not g['recursive'] and (gi + ki) % 2 and 'only' not in g and not g['name'].startswith('dup_ext'):
                continue
            if tier != 'quick' and kind == 'viterbi' and not g['recursive'] and (gi + ki) % 2 and 'only' not in g and len(g['spec']['rules']) > 2:
                continue      # arg-max forking over three-rule grammars: the same selection as the quick tier
            cs.append({'name': g['name'], 'spec': g['spec'], 'recursive': g['recursive'], 'semiring': kind, 'method': method, 'opts': opts,
                       'grad': kind == 'real' and not g['recursive'],
                       # weight of the viterbi derivation (finite weights: the maximum is attained; recursion excluded, see F14 of C04)
                       'viterbi_weight': kind == 'viterbi' and not g['recursive'] and has_derivation_everywhere(g['spec']) and not grammars.features(g['spec'])['duplicate_external']
                       and sum(math.prod(s) for s in grammars.weight_shapes(g['spec']).values()) <= 8})
    # static sharding (cases[shard::n]): spread the expensive cases (arg-max forking, many presentations) over the shards
    def cost(c):
        # rough number of presentations x size of one evaluation
        rules = c['spec']['rules']
        nr = len(rules)
        rp = min(math.factorial(nr), 24 if 'concrete' in c else 6)
        ep = math.factorial(len(rules[0]['edges'])) if rules else 1
        nunk = sum(math.prod(s) for s in grammars.weight_shapes(c['spec']).values())
        w = rp * ep * 2 ** min(nr, 2) * 4 * max(nunk, 1)
        return w * (3 if c['semiring'] == 'viterbi' else 1) * (2 if c.get('grad') else 1) * (3 if c['recursive'] and c['method'] == 'fixed-point' else 1)
    cs.sort(key=cost, reverse=True)
    # static sharding takes cases[shard::16], and the first case of every shard runs under the function profiler (slow): put the 16
    # cheapest cases first, then the rest from the most expensive down
    n = 16
    if len(cs) > 2 * n:
        cs = cs[-n:] + cs[:-n]
    return cs


def run_case(col, case):
    kind = case['semiring']
    spec = case['spec']
    sx.LOG_MODE[0] = (kind == 'log')
    sx.FORK[0] = False
    sx.ABSTRACT[0] = kind in ('real', 'log') and not case['recursive']
    shapes = grammars.weight_shapes(spec)
    names = sorted(shapes)
    nr = len(spec['rules'])
    rperms = presentations.perms(nr)
    cap = (10 if TIER[0] == 'quick' else 24) if 'concrete' in case else 6
    if len(rperms) > cap:
        rr = random.Random(nr)
        rperms = [rperms[0], rperms[-1]] + rr.sample(rperms[1:-1], cap - 2)
    light = case['recursive'] and kind == 'real' and 'concrete' not in case      # nonlinear solver terms: fewer presentations (the others are covered in the other semirings)
    RP = z3.Int('rule_perm')
    # the larger presentation space of the thorough tier (edge orders of two rules, node reversal of every rule, ids independent of the
    # renaming) is affordable where a presentation costs one sum_product; with arg-max forking (viterbi) it is not
    small = TIER[0] == 'quick' or kind == 'viterbi' or case['recursive'] or nr > 3
    ne = 1 if small else min(nr, 2)
    EP = [z3.Int(f'edge_perm{i}') for i in range(ne)]
    eperms = [presentations.perms(len(spec['rules'][i]['edges'])) for i in range(ne)]
    NR = [z3.Bool(f'node_rev{i}') for i in range(nr)]
    REN, EXP, VSW = z3.Bool('rename'), z3.Bool('explicit_ids'), z3.Bool('value_swap')
    V = symvals.Vars()
    cls = 'T' if kind in ('viterbi', 'bool') else 'P'
    if case.get('viterbi_weight'):
        cls = 'P'
    flat = {}
    for n in names:
        row = []
        if n in case.get('concrete', {}):
            flat[n] = [float(v) for v in case['concrete'][n]]
            continue
        for i in range(math.prod(shapes[n])):
            e = V.elem(f'{n}_{i}', kind, cls)
            if kind == 'viterbi' and case['recursive']:
                V.assumptions += [z3.Not(e.pinf), e.v <= 0]
            row.append(e)
        flat[n] = row
    typ = spec['nonterminals'][spec['start']]
    nout = max(1, math.prod(spec['domains'][l] for l in typ))
    cot = [V.elem(f'c{j}', 'lin', 'F') for j in range(nout)] if case['grad'] else None
    V.assumptions += [RP >= 0, RP < len(rperms)] + [z3.And(e >= 0, e < len(p)) for e, p in zip(EP, eperms)]
    B = B3(kind, torch.float64)
    feats = {'grammar': case['name'], 'semiring': kind, 'method': case['method'], 'recursive': case['recursive']}
    col.case(json.dumps([case['name'], kind, case['method']]), nontrivial=True, sample={'grammar': case['name'], 'rules': spec['rules'], 'semiring': kind})
    holder = {}

    def body():
        choice = {'rule_perm': rperms[symx.choose(RP, 0, len(rperms), free=True)],
                  'edge_perm': {i: eperms[i][symx.choose(EP[i], 0, len(eperms[i]), free=True)] for i in range(len(EP))},
                  'node_rev': {} if light else {i: symx.branch(NR[i], free=True) for i in range(nr if not small else min(nr, 2))},
                  'rename': False if light else symx.branch(REN, free=True), 'value_swap': False if light else symx.branch(VSW, free=True)}
        choice['explicit_ids'] = choice['rename'] if (small or light) else symx.branch(EXP, free=True)
        holder['choice'] = choice
        symx.ENGINE.notes.append(('_replay', {'choice': {k: (v if not isinstance(v, dict) else {str(a): b for a, b in v.items()}) for k, v in choice.items()}}))
        c = dict(case)
        c['choice'] = choice
        items = R.run(B, c, flat, cot)
        jchoice = {k: (v if not isinstance(v, dict) else {str(a): b for a, b in v.items()}) for k, v in choice.items()}
        return [(cl, nm, {'presentation': json.dumps(choice, default=str)[:200], '_replay': {'choice': jchoice}}) for cl, nm in claims_of(items)]

    def make_replay(vals, name):
        return {'name': case['name'], 'spec': spec, 'semiring': kind, 'method': case['method'], 'opts': case['opts'], 'grad': case['grad'],
                'viterbi_weight': case.get('viterbi_weight', False), 'concrete': case.get('concrete'),
                'choice': {k: (v if not isinstance(v, dict) else {str(a): b for a, b in v.items()}) for k, v in holder.get('choice', {}).items()},
                'values': TL.jsonable(vals), 'claim': name}
    TL.explore(col, V, body, feats, make_replay, label=f"presentation/{case['name']}/{kind}", timeout_ms=30000)


def main():
    a = common.args()
    if a.replay:
        common.do_replay(PID, a.replay)
    t0 = time.time()
    merged = lib.merge(lib.run_pool('c12', a.tier, a.seed, case_timeout=900, profile_first=1))
    code = lib.finish(
        PID, a.tier, a.seed, 'other', merged, t0,
        rule='case = (grammar, semiring, method); inside a case the presentation is a vector of solver variables: permutation of the rule insertion order (all), of the edge insertion order of the first two rules (all), reversal of the node order of every rule, '
             'consistent renaming of all node/edge labels, explicit vs implicit ids, and a transposition of two values of domain T applied to every factor axis of that label. Grammars: feature set (>=2 edges), a seeded two-level sample, and recursive shapes '
             '(hmm, two_cycle, start_recursive, two_sccs, scalar_linear; Bool/Viterbi exact with tol=0, Real via method linear). All weights symbolic.',
        explanation='Both presentations are built through the public API and evaluated by sum_product on the z3-valued tensor model over the same symbolic weights; the solver decides cell-wise equality of the start tensors modulo the value permutation, and for Real '
                    'non-recursive grammars of the gradients (symbolic cotangent, permuted accordingly). The insertion orders play the role of a schedule: they fix dict/set iteration order inside the solvers.',
        bounds={'rules': 3, 'weights': '<=12', 'presentations_per_case': 'up to 6*36*2^r*8'},
        assumptions=['iteration orders induced by CPython hash randomisation of str ids are fixed by PYTHONHASHSEED=0 (not enumerated)', 'viterbi derivation weight: follows from C04 optimality per presentation (not re-decided here)'],
        regimes=['T', 'P'], technique='symbolic schedules (presentation choices as solver variables) + SMT equivalence of results')
    sys.exit(code)


if __name__ == '__main__':
    main()
