"""C18 -- queries are pure (inputs never mutated, results reproducible); clones are independent."""
import itertools
import json
import math
import random
import sys
import time
import warnings
import common
import boot      # noqa
import torch
import fggs
import z3
import sx
import symx
import lib
import symvals
import tensorlib as TL
from fggs import indices
from oracles import c18_run as R, c06_ops
from gen import grammars, recursive, patterns, bigrules
from c03 import B3
from c06 import claims_of, B6, DEFAULTS, ELEM, applicable

PID = 'C18'
TIER = ['quick']


class B18(B3):
    @staticmethod
    def ones_like(t):
        return torch.ones(tuple(t.size()), dtype=t.dtype)

    def dtype_of(self, kind):
        return ELEM[kind][1]

    @staticmethod
    def is_unmodelled(e):
        # engine verdicts travel as exceptions through the code under test: never record them as the query's outcome
        return isinstance(e, (sx.Unmodelled, symx.Inconclusive, symx.PathLimit))


# ------------------------------------------------------------------------------------------ cases

def history_cases(tier, seed):
    rng = random.Random(seed * 7919 + 18)
    fs = grammars.feature_set(3)
    gl = [{'spec': s, 'recursive': False, 'linear': True, 'name': f'feature{i}'} for i, s in enumerate(fs) if len(s['rules']) >= 1]
    gl += [{'spec': s, 'recursive': False, 'linear': True, 'name': f'twolevel{i}'}
           for i, s in enumerate(grammars.two_level_family(rng, 10 if tier == 'quick' else 60, 3))]
    for g in recursive.family():
        gl.append({'spec': g['spec'], 'recursive': True, 'linear': g['linear'], 'name': g['name']})
    for i, s in enumerate(bigrules.family(tier, seed)[: (6 if tier == 'quick' else 30)]):
        if not grammars.is_recursive(s):
            gl.append({'spec': s, 'recursive': False, 'linear': True, 'name': f'bigrule{i}'})
    cs = []
    for gi, g in enumerate(gl):
        spec = g['spec']
        if not g['recursive'] and grammars.is_recursive(spec):
            continue
        shapes = grammars.weight_shapes(spec)
        nunk = sum(math.prod(s) for s in shapes.values())
        if nunk > 16:
            continue
        kinds = ['real', 'viterbi', 'bool', 'log']
        for ki, kind in enumerate(kinds):
            if g['recursive'] and (kind == 'log' or (kind == 'real' and not g['linear'])):
                continue          # non-linear real recursion: every stopping test is a non-linear branch query (C02 covers the values)
            nvar = 2 if tier == 'quick' else 4
            for var in range(nvar):
                recs = {}
                for name in sorted(shapes):
                    wr = R.weight_recipes(shapes[name], tier)
                    recs[name] = wr[0] if (var == 0 and (gi + ki) % 3 == 0) else rng.choice(wr)
                opts = {}
                if g['recursive']:
                    opts = {'kmax': 8, 'tol': 0} if kind in ('bool', 'viterbi') else {'kmax': 2, 'tol': 1e-5}
                c = {'part': 'history', 'name': g['name'], 'spec': spec, 'recursive': g['recursive'], 'linear': g['linear'], 'semiring': kind,
                     'recs': {k: list(v) for k, v in recs.items()}, 'opts': opts, 'weights': True,
                     'requires_grad': kind in ('real', 'log') and (gi + var) % 2 == 0 and not g['recursive'],
                     'viterbi': not g['recursive'], 'derive': not g['recursive'] and nunk <= 6,
                     # real recursion with many symbolic weights: every stopping test is a non-linear feasibility query -> concrete weights there
                     'concrete': ((gi + ki + var) % 5 == 4 and kind != 'log') or (g['recursive'] and kind == 'real' and nunk > 2), 'profile_seed': rng.randrange(1 << 30)}
                cs.append(c)
    # structure-only histories: factorize_rule / factorize_hrg / conjoin_hrgs / hrg_to_json on grammars without weights
    big = bigrules.family(tier, seed)
    for i, s in enumerate(big[: (8 if tier == 'quick' else 40)]):
        spec = s
        cs.append({'part': 'history', 'name': f'hrg_bigrule{i}', 'spec': spec, 'recursive': False, 'linear': True, 'semiring': 'bool', 'recs': {}, 'opts': {},
                   'weights': False, 'explicit_ids': i % 2 == 0, 'conjoin': conj_partner(spec) if i % 2 == 0 else None})
    return cs


def conj_partner(spec):
    """a second grammar over the same node and nonterminal-edge ids (explicit ids r<i>v<j>, r<i>e<k>): same rules,
    other nonterminal names, terminal edges removed and one fresh terminal edge with a distinct id added"""
    ren = {n: n + '2' for n in spec['nonterminals']}
    out = {'start': ren[spec['start']], 'domains': dict(spec['domains']),
           'nonterminals': {ren[n]: t for n, t in spec['nonterminals'].items()}, 'terminals': {}, 'rules': []}
    for ri, r in enumerate(spec['rules']):
        edges = []
        for ei, e in enumerate(r['edges']):
            if e['label'] in spec['nonterminals']:
                edges.append({'label': ren[e['label']], 'att': list(e['att']), 'id': f'r{ri}e{ei}'})
        if ri == 0 and r['nodes']:
            out['terminals']['u2'] = [r['nodes'][0]]
            edges.append({'label': 'u2', 'att': [0], 'id': f'r{ri}u2'})
        out['rules'].append({'lhs': ren[r['lhs']], 'nodes': list(r['nodes']), 'edges': edges, 'ext': list(r['ext'])})
    return out


def clone_cases(tier, seed):
    rng = random.Random(seed * 31 + 5)
    T = torch
    ops = [o for o in c06_ops.table(T) if o['inplace'] and o['n'] in (1, 2) and not o['name'].startswith('copy_then')]
    shapes = [(2,), (3,), (2, 2), (2, 3), ()] if tier == 'quick' else [(), (2,), (3,), (4,), (1,), (2, 2), (2, 3), (3, 2), (2, 1), (2, 2, 2)]
    cap = 4 if tier == 'quick' else 10
    cs = []
    for shape in shapes:
        tts = patterns.type_tuples(shape, depth=1)
        if len(tts) > (3 if tier == 'quick' else 8):
            tts = tts[:1] + rng.sample(tts[1:], (2 if tier == 'quick' else 7))
        for types in tts:
            rs_all = patterns.typed_recipes(types, max_phys=6 if tier == 'quick' else 8, layouts=('contig', 'expand', 'perm'))
            if not rs_all:
                continue
            tdesc = [patterns.depict_type(t) for t in types]
            noexp = [r for r in rs_all if not r['layout'].startswith('expand')]
            for op in ops:
                if not applicable(op, len(shape)):
                    continue
                kind = op['kind']
                for mode in ('clone', 'clone_src', 'copy', 'copy_src'):
                    # the tensor written to must not be self-overlapping (torch refuses in-place writes to stride-0 views):
                    # clone(): the clone of an expanded tensor is again expanded -> source recipes without stride 0 for every mode
                    src = noexp if not op.get('replaces_storage') else rs_all
                    if mode in ('clone_src', 'copy_src') and not op.get('replaces_storage'):
                        src = noexp
                    if not src:
                        continue
                    sel = src if len(src) <= cap else src[:1] + rng.sample(src[1:], cap - 1)
                    for r in sel:
                        d = rng.choice(DEFAULTS[kind])
                        operands = [{'recipe': r, 'default': d, 'elem': kind}]
                        if op['n'] == 2:
                            operands.append({'recipe': rng.choice(rs_all), 'default': rng.choice(DEFAULTS[kind]), 'elem': kind})
                        if mode.startswith('copy'):
                            # destination of the copy: any pattern of the same shape (copy_ re-uses its storage when sizes match)
                            same = [x for x in rs_all if math.prod(x['psizes']) == math.prod(r['psizes']) and not x['layout'].startswith('expand')]
                            dst = rng.choice(same) if same and rng.random() < 0.7 else rng.choice(noexp or rs_all)
                            if dst['layout'].startswith('expand') and not op.get('replaces_storage'):
                                continue
                            operands.append({'recipe': dst, 'default': rng.choice(DEFAULTS[kind]), 'elem': kind})
                        cs.append({'part': 'clone', 'op': op['name'], 'mode': mode, 'types': tdesc, 'operands': operands})
    # MultiTensor
    pres = [('x', 'y'), ('x',), ('y',), ()]
    for step in R.MULTI_STEPS:
        for mode in ('clone', 'clone_src', 'copy', 'copy_src'):
            for kind in ('real', 'viterbi'):
                for pa, pb in itertools.product(pres, pres):
                    for lay in ('contig', 'slice'):
                        if tier == 'quick' and rng.random() < 0.6:
                            continue
                        pc = rng.choice(pres)
                        cs.append({'part': 'multi', 'step': step, 'mode': mode, 'semiring': kind, 'present': [list(pa), list(pb), list(pc)], 'layout': lay,
                                   'dst_layout': rng.choice(['contig', 'slice'])})
    return cs


def cases(tier, seed=0):
    TIER[0] = tier
    return history_cases(tier, seed) + clone_cases(tier, seed)


# ------------------------------------------------------------------------------------------ running

def problems_claims(problems, items, extra=None):
    out = [(False, 'purity: ' + p) for p in problems]
    out += claims_of(items)
    if extra:
        out = [(c, n, extra) for c, n in out]
    return out


def run_history_case(col, case):
    kind = case['semiring']
    spec = case['spec']
    sx.LOG_MODE[0] = (kind == 'log')
    sx.FORK[0] = case['recursive'] and kind in ('real', 'log')
    sx.ABSTRACT[0] = kind in ('real', 'log') and not case['recursive']
    shapes = grammars.weight_shapes(spec) if case['weights'] else {}
    recs = {k: (v[0], v[1]) for k, v in case['recs'].items()}
    V = symvals.Vars()
    elems = {}
    prng = random.Random(case.get('profile_seed', 0))
    special = prng.random() < 0.5
    for n in sorted(shapes):
        k = R.nweight_elems(shapes[n], recs[n])
        row = []
        for i in range(k):
            if case.get('concrete'):
                row.append({'real': 0.5 + 0.25 * i, 'log': -0.5 - 0.25 * i, 'viterbi': -0.5 - 0.25 * i, 'bool': i % 2 == 0}[kind])
                continue
            if kind in ('viterbi', 'bool'):
                e = V.elem(f'{n}_{i}', kind, 'T')
                if kind == 'viterbi' and case['recursive']:
                    V.assumptions += [z3.Not(e.pinf), e.v <= 0]
            else:
                cls = 'P'
                if special and not case['recursive']:
                    cls = prng.choice('PPPZI')
                e = V.elem(f'{n}_{i}', kind, cls)
            row.append(e)
        elems[n] = row
    B = B18(kind, torch.float64)
    Q = R.query_table(case)
    nq = len(Q)
    L = 3 if TIER[0] == 'quick' else 4
    H = [z3.Int(f'q{i}') for i in range(L - 1)]
    V.assumptions += [z3.And(h >= 0, h < nq) for h in H]
    feats = {'part': 'history', 'grammar': case['name'], 'semiring': kind, 'weights': case['weights']}
    col.case(json.dumps([case['name'], kind, case['recs'], case.get('requires_grad'), case.get('concrete')], sort_keys=True, default=str), nontrivial=True,
             sample={'grammar': case['name'], 'rules': spec['rules'], 'semiring': kind, 'weights': {k: (v[0], v[1] if isinstance(v[1], str) else patterns.depict(v[1])) for k, v in recs.items()},
                     'queries': [n for n, _ in Q]})
    holder = {}

    def body():
        hist = [symx.choose(h, 0, nq, free=True) for h in H]
        hist = hist + [hist[0]]          # (q, r, [s,] q): q is observed before and after every other query, and repeated
        holder['history'] = [Q[i][0] for i in hist]
        symx.ENGINE.notes.append(('_replay', {'history_names': list(holder['history'])}))
        with warnings.catch_warnings():
            warnings.simplefilter('ignore')
            problems, items = R.run_history(B, case, recs, elems, hist)
        return problems_claims(problems, items, {'history': ' ; '.join(holder['history'])[:200], '_replay': {'history_names': list(holder['history'])}})

    def make_replay(vals, name):
        d = {k: case[k] for k in case if k != 'profile_seed'}
        d.update({'values': TL.jsonable(vals), 'claim': name, 'history_names': holder.get('history')})
        return d
    TL.explore(col, V, body, feats, make_replay, label=f"history/{case['name']}/{kind}", timeout_ms=30000)


def run_clone_case(col, case):
    B = B6()
    multi = case['part'] == 'multi'
    V = symvals.Vars()
    sx.FORK[0] = False
    sx.ABSTRACT[0] = False
    if multi:
        kind = case['semiring']
        sx.LOG_MODE[0] = False
        B = B18(kind, torch.float32)
        elems = [[V.elem(f'a{k}_{i}', kind, 'T') for i in range(4)] for k in range(3)]
        feats = {'part': 'multi', 'step': case['step'], 'mode': case['mode']}
        col.case(repr(case), nontrivial=True, sample=case)

        def body():
            return problems_claims(*R.run_multi_clone(B, case, elems))
    else:
        op = next(o for o in OPS() if o['name'] == case['op'])
        nonlinear = op.get('nonlinear', False)
        sx.LOG_MODE[0] = any(o['elem'] == 'log' for o in case['operands'])
        elems = []
        for k, o in enumerate(case['operands']):
            ek = ELEM[o['elem']][0]
            n = patterns.nelems(o['recipe'])
            cls = 'T'
            if nonlinear and ek == 'viterbi':
                cls = 'F'
            if ek == 'log' and nonlinear:
                cls = 'P'
            elems.append([V.elem(f'a{k}_{i}', ek, cls) for i in range(n)])
        feats = {'part': 'clone', 'op': case['op'], 'mode': case['mode']}
        col.case(repr(case), nontrivial=True,
                 sample={'op': case['op'], 'mode': case['mode'], 'operands': [patterns.depict(o['recipe']) + f" default={o['default']}" for o in case['operands']]})

        def body():
            return problems_claims(*R.run_clone(B, case, elems))

    def make_replay(vals, name):
        d = dict(case)
        d.update({'values': TL.jsonable(vals), 'claim': name})
        return d
    TL.explore(col, V, body, feats, make_replay, label=f"{case['part']}/{case.get('op', case.get('step'))}/{case['mode']}", timeout_ms=30000)


_OPS = []


def OPS():
    if not _OPS:
        _OPS.extend(c06_ops.table(torch))
    return _OPS


def run_case(col, case):
    if case['part'] == 'history':
        run_history_case(col, case)
    else:
        run_clone_case(col, case)


def main():
    a = common.args()
    if a.replay:
        common.do_replay(PID, a.replay)
    t0 = time.time()
    merged = lib.merge(lib.run_pool('c18', a.tier, a.seed, case_timeout=600))
    code = lib.finish(
        PID, a.tier, a.seed, 'other', merged, t0,
        rule='history case = (grammar, semiring, presentation of every factor\'s weights: contiguous / permuted / offset-slice plain tensors, or PatternedTensors from the typed pattern family incl. stride-0 physical tensors, requires_grad on/off); '
             'the history itself is a vector of solver variables (q, r[, s], q) over the query table {sum_product x 3 methods, sum_products, viterbi, viterbi+derive, sum_product+backward, factorize_fgg x 2, fgg_to_json (concrete weights), hrg_to_json} resp. '
             '{factorize_hrg x 3, factorize_rule with/without labels, conjoin_hrgs, hrg_to_json} for weight-free grammars with large rules. clone case = (in-place operation of the C06 table, pattern + default per operand, mode: op on clone / on source / on copy_ destination / on copy_ source); '
             'MultiTensor case = (step, mode, present blocks, layout).',
        explanation='A deep snapshot of every argument (rules, nodes, edges, externals, label tables, domains, factor bindings by object identity; per weight tensor: size, stride, offset, dtype, requires_grad, axis expressions, default and *every cell of the underlying storage*, '
                    'also of the plain tensor the user handed in) is taken before the history and after each query. Storage cells are z3 terms, so "unchanged" is decided for all weight values at once: a cell that is not the identical term becomes a solver query. '
                    'The result of the repeated query must equal the first result (structure verbatim, cells by solver query). For clones the storage of the tensor that was not operated on is compared cell by cell, and its denotation (independent axis semantics) as well.',
        bounds={'history_length': 3 if a.tier == 'quick' else 4, 'weights_per_grammar': '<=16', 'clone_shapes': 'as C06 quick/thorough', 'multitensor_keys': 2},
        assumptions=['fgg_to_json calls float() on every cell (C boundary): histories containing it use concrete weights (labelled concrete in the case)',
                     'viterbi and viterbi+derive only on non-recursive grammars (known finding F14 of C04 concerns recursion)',
                     'set-valued label tables are compared as sets', 'gradient accumulation in .grad of leaf tensors is the documented autograd effect and is not part of the snapshot',
                     'recursive grammars in the real semiring: kmax=2 (each stopping test forks)'],
        regimes=['T', 'P', 'S(sampled)'], technique='symbolic histories (query sequence as solver variables) + SMT identity of storage cells before/after')
    sys.exit(code)


if __name__ == '__main__':
    main()
