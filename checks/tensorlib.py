"""shared machinery of the value-symbolic checks: run a harness body under the
forking engine, decide its claims with the solver, turn counterexamples into replays"""
import itertools
import math
import traceback
import z3
import sx
import symx
import lib
import symvals


def grid_model(eng, negclaim, pc, V):
    """try to find a counterexample on the dyadic grid k/8 (exactly representable)"""
    s = eng.solver
    s.push()
    try:
        for a in eng.assumptions + sx.const_assumptions() + list(pc):
            s.add(a)
        s.add(negclaim)
        for name, e in V.items:
            x = e.e if isinstance(e, sx.LogV) else e
            if isinstance(x, sx.SX) and not z3.is_rational_value(x.v):
                s.add(z3.IsInt(8 * x.v), x.v <= 64, x.v >= -64)
        s.set('timeout', 5000)
        r = s.check()
        m = s.model() if r == z3.sat else None
    finally:
        s.set('timeout', eng.timeout_ms)
        s.pop()
    return m


def explore(col, V, body, features, make_replay, label, timeout_ms=30000, kind='claim'):
    """body() -> list of (claim, name) or (claim, name, extra_features).  Each claim is decided under the path condition."""
    eng = symx.Engine(assumptions=V.assumptions, timeout_ms=timeout_ms)
    try:
        paths = eng.run(body, catch=(Exception,))
    except (symx.Inconclusive, symx.PathLimit) as e:
        col.inconclusive.append({'label': label, 'why': repr(e)})
        return
    for p in paths:
        if p.exc is not None:
            if isinstance(p.exc, (symx.Inconclusive, symx.PathLimit)):
                col.inconclusive.append({'label': label, 'why': repr(p.exc)})
                continue
            if isinstance(p.exc, sx.Unmodelled):
                col.unmodelled.append({'label': label, 'why': str(p.exc)})
                symx.STATS.unmodelled += 1
                continue
            # an exception of the code under test on a feasible path: candidate violation
            m = None
            st, m = eng.prove(False, pc=p.pc, label=label + ':exception-path')
            vals = V.values(m) if m is not None else {}
            f = dict(features)
            f['exception'] = type(p.exc).__name__
            rp = make_replay(vals, 'exception')
            for note in (p.notes or []):
                if isinstance(note, tuple) and len(note) == 2 and note[0] == '_replay':
                    rp.update(note[1])      # path-specific replay data recorded by the body before the exception
            col.violation('exception', f, rp,
                          note=''.join(traceback.format_exception_only(type(p.exc), p.exc))[-400:])
            continue
        for item in p.value:
            claim, name = item[0], item[1]
            f = dict(features)
            extra_replay = None
            if len(item) > 2:
                f.update(item[2])
                extra_replay = f.pop('_replay', None)     # path-specific data for the replay (not a feature)
            f['claim'] = name
            st, m = eng.prove(claim, pc=p.pc, label=label + ':' + name, extra=p.facts)
            if st == 'unsat':
                continue
            if st == 'unknown':
                col.inconclusive.append({'label': label, 'claim': name})
                continue
            gm = grid_model(eng, sx.BoolZ(sx.Not(claim)), p.pc, V)
            vals = V.values(gm if gm is not None else m)
            rp = make_replay(vals, name)
            if extra_replay:
                rp.update(extra_replay)
            col.violation(kind, f, rp, note=f'counterexample values {vals}')


def all_same(xs, ys):
    assert len(xs) == len(ys), (len(xs), len(ys))
    return sx.And(*[sx.same(a, b) for a, b in zip(xs, ys)])


def jsonable(vals):
    return {k: symvals.to_jsonable(v) for k, v in vals.items()}
