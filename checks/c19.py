"""C19 -- strongly connected components are correct and dependency-ordered."""
import itertools
import sys
import time
import common
import boot          # noqa: F401  (model torch + real fggs on the path)
import z3
import symx
import lib
from oracles import c19_run

PID = 'C19'


def shard_scc(shard, nshards, tier, seed):
    col = lib.Collector()
    sizes = [0, 1, 2, 3] if tier == 'quick' else [0, 1, 2, 3, 4]
    for n in sizes:
        bits = [(i, j) for i in range(n) for j in range(n)]
        E = {b: z3.Bool(f'e_{b[0]}_{b[1]}') for b in bits}
        nperm = len(list(itertools.permutations(range(n))))
        perms = list(itertools.permutations(range(n)))
        P = z3.Int('perm')
        R = [z3.Bool(f'rev_{i}') for i in range(n)]
        # shard: fix the first bits of the adjacency matrix
        k = min(len(bits), (nshards - 1).bit_length())
        if k < (nshards - 1).bit_length() and shard >= 2 ** k:
            continue
        fixed = [E[bits[i]] if (shard >> i) & 1 else z3.Not(E[bits[i]]) for i in range(k)]
        sym_order = n <= 3
        eng = symx.Engine(assumptions=fixed + [P >= 0, P < nperm])

        def body():
            edges = [[i, j] for bi, (i, j) in enumerate(bits) if symx.branch(E[(i, j)], free=bi >= k)]
            if sym_order:
                order = list(perms[symx.choose(P, 0, nperm, free=True)])
                rev = [symx.branch(r, free=True) for r in R]
            else:
                order = list(range(n))
                rev = [False] * n
            return (n, edges, order, rev, c19_run.run_scc(n, edges, order, rev))
        with lib.Functions() as fns:
            paths = eng.run(body)
        col.functions |= fns.names
        for p in paths:
            if p.exc is not None:
                col.violation('scc', {'entry': 'scc', 'exception': type(p.exc).__name__},
                              {'n': p.value and p.value[0]}, note=repr(p.exc))
                continue
            n_, edges, order, rev, msg = p.value
            col.case(('scc', n_, tuple(map(tuple, edges)), tuple(order), tuple(rev)), nontrivial=n_ >= 2,
                     sample={'n': n_, 'edges': edges, 'key_order': order, 'rev': rev})
            col.check(not msg)
            if msg:
                col.violation('scc', {'entry': 'scc'}, {'n': n_, 'edges': edges, 'key_order': order, 'rev': rev}, note=msg)
    sparse_orders(col, shard, nshards, tier, seed)
    return col.result(symx.STATS)


def sparse_orders(col, shard, nshards, tier, seed):
    """digraphs on 4 (and 5) vertices with few edges (an AtMost constraint handed to the solver), no self-loops, under EVERY insertion order of the keys
    (a sample of 12 orders for n=5) and both orders of every neighbour list: cross edges into finished components vs back edges depend on the visiting order"""
    import random
    for n, maxe in ((4, 4),) if tier == 'quick' else ((4, 6), (5, 4)):
        bits = [(i, j) for i in range(n) for j in range(n) if i != j]
        E = {b: z3.Bool(f'e_{b[0]}_{b[1]}') for b in bits}
        perms = list(itertools.permutations(range(n)))
        if len(perms) > 24:
            perms = [perms[0], perms[-1]] + random.Random(seed).sample(perms[1:-1], 10)
        P = z3.Int('perm')
        RV = z3.Bool('rev_all')
        k = (nshards - 1).bit_length()
        fixed = [E[bits[i]] if (shard >> i) & 1 else z3.Not(E[bits[i]]) for i in range(k)]
        eng = symx.Engine(assumptions=fixed + [P >= 0, P < len(perms), z3.AtMost(*[E[b] for b in bits], maxe)])

        def body():
            edges = [[i, j] for bi, (i, j) in enumerate(bits) if symx.branch(E[(i, j)], free=False)]
            order = list(perms[symx.choose(P, 0, len(perms), free=True)])
            rev = [symx.branch(RV, free=True)] * n
            return (n, edges, order, rev, c19_run.run_scc(n, edges, order, rev))
        for p in eng.run(body):
            if p.exc is not None:
                col.violation('scc', {'entry': 'scc', 'exception': type(p.exc).__name__, 'part': 'sparse'}, {'n': n}, note=repr(p.exc))
                continue
            n_, edges, order, rev, msg = p.value
            col.case(('scc', n_, tuple(map(tuple, edges)), tuple(order), tuple(rev)), nontrivial=True, sample={'n': n_, 'edges': edges, 'key_order': order, 'rev': rev})
            col.check(not msg)
            if msg:
                col.violation('scc', {'entry': 'scc', 'part': 'sparse'}, {'n': n_, 'edges': edges, 'key_order': order, 'rev': rev}, note=msg)


MUTATIONS = [['add_rule', 'S', 'N'], ['add_rule', 'X', 'S'], ['add_rule', 'N', 'X'], ['rhs_add_edge', 0, 'N'], ['rhs_add_edge', 1, 'X'],
             ['set_start', 'N'], ['set_start', 'X'], ['add_label', 'N']]


def shard_nt(shard, nshards, tier, seed):
    """HRGs over nonterminals S,X,Y (arity 0) and one terminal t: which of up to
    R rules exist, their lhs and the labels of up to 2 rhs edges are symbolic ints."""
    col = lib.Collector()
    R = 2
    labels = c19_run.NTS + ['t']
    lhs = [z3.Int(f'lhs{r}') for r in range(R)]          # 0..2, or 3 = rule absent
    lab = [[z3.Int(f'lab{r}_{e}') for e in range(2)] for r in range(R)]   # 0..3 label, 4 = no edge
    decl = [z3.Bool(f'decl_{x}') for x in c19_run.NTS[1:]]
    MK, MW, MX = z3.Int('mut_kind'), z3.Int('mut_who'), z3.Int('mut_what')
    muts = MUTATIONS if tier != 'quick' else [MUTATIONS[0], MUTATIONS[3], MUTATIONS[5], MUTATIONS[7]]
    assume = [MK >= 0, MK < len(muts)]
    for r in range(R):
        assume += [lhs[r] >= 0, lhs[r] <= 3]
        for e in range(2):
            assume += [lab[r][e] >= 0, lab[r][e] <= 4]
    # shard on the first rule's lhs and first label (4*5 = 20 combos)
    combos = [(a, b) for a in range(4) for b in range(5)]
    mine = [c for i, c in enumerate(combos) if i % nshards == shard]
    for (a, b) in mine:
        eng = symx.Engine(assumptions=assume + [lhs[0] == a, lab[0][0] == b])

        def body():
            rules = []
            for r in range(R):
                l = symx.choose(lhs[r], 0, 4, free=r > 0)
                es = [symx.choose(lab[r][e], 0, 5, free=(r, e) != (0, 0)) for e in range(2 if (r == 0 or tier != 'quick') else 1)]
                if l == 3:
                    continue
                rules.append([c19_run.NTS[l], [labels[x] for x in es if x < 4]])
            declared = [x for x, d in zip(c19_run.NTS[1:], decl) if symx.branch(d, free=True)]
            spec = {'start': 'S', 'rules': rules, 'declared': declared}
            msg = c19_run.run_ntgraph(spec)
            # history: query, mutate through the public API, query again (symbolic choice of the mutation)
            mutation = muts[symx.choose(MK, 0, len(muts), free=True)]
            hmsg = c19_run.run_ntgraph_history(spec, mutation)
            return spec, msg, mutation, hmsg
        with lib.Functions() as fns:
            paths = eng.run(body)
        col.functions |= fns.names
        for p in paths:
            if p.exc is not None:
                col.violation('ntgraph', {'entry': 'nonterminal_graph', 'exception': type(p.exc).__name__}, {'spec': None}, note=repr(p.exc))
                continue
            spec, msg, mutation, hmsg = p.value
            col.case(('nt', repr(spec), repr(mutation)), nontrivial=len(spec['rules']) > 0, sample={'spec': spec, 'then': mutation})
            col.check(not msg)
            if msg:
                col.violation('ntgraph', {'entry': 'nonterminal_graph'}, {'spec': spec}, note=msg)
            col.check(not hmsg)
            if hmsg:
                col.violation('nthistory', {'entry': 'nonterminal_graph', 'history': mutation[0]}, {'spec': spec, 'mutation': mutation}, note=hmsg)
    return col.result(symx.STATS)


def shard(shard_i, nshards, tier, seed):
    a = shard_scc(shard_i, nshards, tier, seed)
    st = dict(a.get('stats', {}))
    symx.STATS.__init__()
    b = shard_nt(shard_i, nshards, tier, seed)
    m = lib.merge([a, b])
    m['nontrivial'] = sorted(m['nontrivial'])
    m['functions'] = sorted(m['functions'])
    m.pop('errors')
    return m


def main():
    a = common.args()
    if a.replay:
        common.do_replay(PID, a.replay)
    t0 = time.time()
    res = lib.run_sharded('c19', 'shard', a.tier, a.seed)
    merged = lib.merge(res)
    nmax = 3 if a.tier == 'quick' else 4
    code = lib.finish(
        PID, a.tier, a.seed, 'other', merged, t0,
        rule='scc: every digraph on n<=%d vertices (symbolic adjacency incl. self-loops; for n<=3 also every key insertion order '
             'and a symbolic reversal of each neighbour list), one engine path per feasible assignment; nonterminal_graph: every HRG with '
             '<=%d rules over nonterminals S,X,Y and terminal t, <=2 rhs edges per rule, symbolic lhs/labels/declared-only nonterminals. '
             'non-trivial = n>=2 resp. at least one rule; distinct = distinct decoded case' % (nmax, 2 if a.tier == 'quick' else 3),
        explanation='Bounded symbolic execution (symx replay-forking engine over z3) of the real fggs.utils.scc and nonterminal_graph: the '
                    'graph is a vector of symbolic Booleans/ints; every branch of the real code and of the decoder is resolved by a solver '
                    'feasibility query, so the explored paths partition the whole bounded input space (exhaustive). On each path the result '
                    'is compared with an independent oracle (reachability closure; definition of the dependency relation).',
        bounds={'scc_max_vertices': nmax, 'symbolic_insertion_order_up_to': 3, 'sparse_digraphs': 'n=4 with <=4 edges (thorough <=6) under all 24 key orders x both neighbour orders; thorough also n=5 with <=4 edges under 12 key orders', 'nt_rules': 2 if a.tier == 'quick' else 3},
        assumptions=['vertices are hashable ints; recursion depth is not an issue at this size',
                     'nonterminal_graph: arity-0 labels only (arity is irrelevant to the dependency relation)'],
        exhaustive=True, technique='bounded symbolic execution (z3 path forking) + independent reachability oracle')
    sys.exit(code)


if __name__ == '__main__':
    main()
