"""shared prologue of every check: argument parsing and the model boot"""
import argparse
import os
import sys
import time

sys.path.insert(0, os.path.dirname(os.path.dirname(os.path.abspath(__file__))))
sys.setrecursionlimit(10000)
import warnings
warnings.filterwarnings('ignore', message='.*indicates index type mismatch.*')


def args():
    ap = argparse.ArgumentParser()
    ap.add_argument('--tier', default=os.environ.get('VERIF_TIER', 'quick'), choices=['quick', 'thorough'])
    ap.add_argument('--replay', default=None)
    ap.add_argument('--seed', type=int, default=int(os.environ.get('VERIF_SEED', '0') or 0))
    a = ap.parse_args()
    return a


def do_replay(pid, path):
    import lib
    path = os.path.abspath(path)       # the replayer runs with the repository as its working directory
    ok, out = lib.replay(pid, path)
    print(out)
    if ok:
        print(f'VIOLATION property={pid} replay={path}')
        sys.exit(1)
    print(f'replay of {path}: violation does not reproduce' if ok is False else 'replay failed to run')
    sys.exit(0 if ok is False else 3)
