"""C15 -- hyperedge replacement is typed, fresh and order-independent."""
import itertools
import json
import sys
import time
import common
import boot          # noqa
import fggs
import z3
import symx
import lib
from oracles import c15_run as R

PID = 'C15'


def hosts():
    out = []
    for nodes in ([0], [0, 1], [0, 0], [1, 0, 0]):
        n = len(nodes)
        for ar in (0, 1, 2):
            for att in itertools.product(range(n), repeat=ar):
                base = [['X', list(att), 1]]
                for extra in ([], [['f', [0], 0]], [['X', list(att), 1]], [['g', [n - 1, 0], 0]]):
                    for ext in ([], [0], [n - 1, 0]):
                        out.append({'nodes': nodes, 'edges': base + extra, 'ext': ext})
    return out


def repls():
    out = []
    for nodes in ([], [0], [1], [0, 1], [0, 0], [0, 1, 0]):
        n = len(nodes)
        exts = [[]] + [[i] for i in range(n)] + [[i, j] for i in range(n) for j in range(n) if i != j]   # a rule lists each external node once
        for ext in exts:
            edge_sets = [[]]
            if n:
                edge_sets += [[['f', [0], 0]], [['Y', [n - 1], 1], ['f', [0], 0]], [['g', [n - 1, 0], 0], ['g', [n - 1, 0], 0]], [['c', [], 0]]]
            else:
                edge_sets += [[['c', [], 0]]]
            for es in edge_sets:
                out.append({'nodes': nodes, 'edges': es, 'ext': ext})
    return out


from c15_defs import GRAMMARS, TREES
import c15_defs


def build_hrg(gspec):
    return c15_defs.build_hrg(fggs, gspec)


def count(t):
    return 1 + sum(count(c) for c in t[1])


def shard(shard_i, nshards, tier, seed):
    col = lib.Collector()
    H, Rp = hosts(), repls()
    Hi, Ri = z3.Int('host'), z3.Int('repl')
    mine = [h for h in range(len(H)) if h % nshards == shard_i]
    with lib.Functions() as fns:
        for h0 in mine:
            eng = symx.Engine(assumptions=[Hi == h0, Ri >= 0, Ri < len(Rp)])

            def body():
                h = symx.choose(Hi, 0, len(H))
                r = symx.choose(Ri, 0, len(Rp), free=True)
                return h, r, R.check_replace(fggs, H[h], Rp[r], 0)
            for p in eng.run(body):
                if p.exc is not None:
                    col.violation('replace', {'part': 'replace_edge', 'exception': type(p.exc).__name__}, {'part': 'replace', 'host': H[h0], 'repl': None}, note=repr(p.exc))
                    continue
                h, r, problems = p.value
                col.case(('replace', h, r), nontrivial=len(Rp[r]['nodes']) > 0, sample={'host': H[h], 'replacement': Rp[r]})
                col.check(not problems)
                if problems:
                    col.violation('replace', {'part': 'replace_edge', 'problem': problems[0][:70]}, {'part': 'replace', 'host': H[h], 'repl': Rp[r]}, note=problems[0])
        # confluence: every order of rewriting the pending nonterminal edges gives the same graph up to isomorphism
        jobs = [(gi, ti) for gi in TREES for ti in range(len(TREES[gi]))]
        for (gi, ti) in [j for k, j in enumerate(jobs) if k % nshards == shard_i]:
            tree = TREES[gi][ti]
            n = count(tree)
            P = [z3.Int(f'pick{i}') for i in range(n)]
            eng = symx.Engine(assumptions=[])
            hrg = build_hrg(GRAMMARS[gi])

            def body():
                step = [0]
                picks = []

                def pick(k):
                    i = step[0]
                    step[0] += 1
                    eng2 = symx.ENGINE
                    eng2.assume(z3.And(P[i] >= 0, P[i] < k))
                    v = symx.choose(P[i], 0, k)
                    picks.append(v)
                    return v
                g = R.apply_schedule(fggs, hrg, tree, pick)
                return picks, R.canon(g), len(g.nodes()), len(g.edges())
            results = eng.run(body)
            ref = None
            for p in results:
                if p.exc is not None:
                    col.violation('confluence', {'part': 'confluence', 'exception': type(p.exc).__name__}, {'part': 'confluence', 'grammar': gi, 'tree': tree, 'picks': []}, note=repr(p.exc))
                    continue
                picks, cn, nn, ne = p.value
                col.case(('confluence', gi, ti, tuple(picks)), nontrivial=len(picks) > 1, sample={'grammar': gi, 'tree': tree, 'schedule': picks})
                if ref is None:
                    ref = (cn, picks)
                ok = cn == ref[0]
                col.check(ok)
                if not ok:
                    col.violation('confluence', {'part': 'confluence'}, {'part': 'confluence', 'grammar': gi, 'tree': tree, 'picks': picks, 'ref_picks': ref[1]},
                                  note=f'schedule {picks} and schedule {ref[1]} give non-isomorphic graphs')
            # derive(): same graph, total assignment, factor multiset = rule instances' factors
            msg = check_derive(hrg, tree, ref[0] if ref else None)
            col.check(not msg)
            if msg:
                col.violation('derive', {'part': 'derive'}, {'part': 'derive', 'grammar': gi, 'tree': tree}, note=msg)
    col.functions |= fns.names
    return col.result(symx.STATS)


def check_derive(hrg, tree, ref_canon):
    return c15_defs.check_derive(fggs, hrg, tree, ref_canon)


def main():
    a = common.args()
    if a.replay:
        common.do_replay(PID, a.replay)
    t0 = time.time()
    merged = lib.merge(lib.run_sharded('c15', 'shard', a.tier, a.seed))
    code = lib.finish(
        PID, a.tier, a.seed, 'other', merged, t0,
        rule='one step: every (host, replacement) pair from %d hosts (1-3 nodes, the nonterminal edge X of arity 0-2 with any attachment incl. repeated nodes, optional second X edge / terminal edges, externals) x %d replacements (0-3 nodes, any external list of '
             'length <=2 incl. repeated and ill-typed ones, terminal/nonterminal/nullary edges), chosen by solver variables. Confluence: 7 derivation trees (<=4 rule instances, rules with 2 nonterminal edges, shared rules) over 2 HRGs; the order of rewriting '
             'is a symbolic schedule (which pending edge next), all schedules explored.' % (len(hosts()), len(repls())),
        explanation='replace_edge is executed for every pair and its effect compared with the definition (exactly that edge removed, externals identified in order, fresh distinct copies of the other nodes and all edges with labels and attachment order kept, rest of host and '
                    'its externals untouched, wrong type rejected without side effects). Every linearisation of each derivation tree is explored by the symbolic executor and the resulting graphs are compared up to isomorphism (canonical form); derive() must give the same graph '
                    'with a total assignment whose factors are exactly the rule instances\' factors.',
        bounds={'host_nodes': 3, 'replacement_nodes': 3, 'derivation_size': 4},
        assumptions=['isomorphism by canonical form over all node permutations (graphs with <=8 nodes)'],
        exhaustive=True, technique='bounded symbolic execution (symbolic structure choice and symbolic rewriting schedule)')
    sys.exit(code)


if __name__ == '__main__':
    main()
