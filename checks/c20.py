"""C20 -- domains and factors index consistently and reject ill-shaped bindings."""
import itertools
import json
import math
import sys
import time
import common
import boot          # noqa
import torch
import fggs
import z3
import sx
import symx
import lib
import symvals
import tensorlib as TL
from fggs import indices
from oracles import c20_run as R
from c02 import B2
from c06 import claims_of

PID = 'C20'


class B20(B2):
    @staticmethod
    def scalar_of(t):
        return t._get(()) if t.dim() == 0 else t._vals()[0]


def shard(shard_i, nshards, tier, seed):
    col = lib.Collector()
    NP = len(R.POOL)
    maxlen = 3 if tier == 'quick' else 4
    with lib.Functions() as fns:
        # ---- FiniteDomain: value lists chosen by solver variables (pairwise distinct), probe value
        for n in range(0, maxlen + 1):
            Vs = [z3.Int(f'v{i}') for i in range(n)]
            Pv = z3.Int('probe')
            first = [k for k in range(NP) if k % nshards == shard_i] if n else ([0] if shard_i == 0 else [])
            for f0 in first:
                ass = [z3.And(v >= 0, v < NP) for v in Vs + [Pv]] + ([z3.Distinct(*Vs)] if n > 1 else []) + ([Vs[0] == f0] if n else [])
                # 1 and 1.5 etc. are distinct; 1 == True is not in the pool
                eng = symx.Engine(assumptions=ass)

                def body():
                    idxs = [symx.choose(v, 0, NP) for v in Vs]
                    pr = symx.choose(Pv, 0, NP, free=True)
                    return idxs, pr, R.check_finite_domain(fggs, idxs, pr)
                for p in eng.run(body):
                    if p.exc is not None:
                        col.violation('domain', {'part': 'FiniteDomain', 'exception': type(p.exc).__name__}, {'part': 'finite', 'idxs': [], 'probe': 0}, note=repr(p.exc))
                        continue
                    idxs, pr, problems = p.value
                    col.case(('fd', tuple(idxs), pr), nontrivial=len(idxs) > 1, sample={'values': [repr(R.POOL[i]) for i in idxs], 'probe': repr(R.POOL[pr])})
                    col.check(not problems)
                    if problems:
                        col.violation('domain', {'part': 'FiniteDomain', 'problem': problems[0][:60]}, {'part': 'finite', 'idxs': idxs, 'probe': pr}, note=problems[0])
        if shard_i == 0:
            N, Pr = z3.Int('n'), z3.Int('p')
            eng = symx.Engine(assumptions=[N >= 0, N <= 4, Pr >= -2, Pr <= 5])

            def body():
                n = symx.choose(N, 0, 5, free=True)
                pr = symx.choose(Pr, -2, 6, free=True)
                return n, pr, R.check_range_domain(fggs, n, pr)
            for p in eng.run(body):
                n, pr, problems = p.value
                col.case(('rd', n, pr), nontrivial=n > 0, sample={'range': n, 'probe': pr})
                col.check(not problems)
                if problems:
                    col.violation('domain', {'part': 'RangeDomain', 'problem': problems[0][:60]}, {'part': 'range', 'n': n, 'probe': pr}, note=problems[0])
        # ---- FiniteFactor shapes and apply (symbolic weights)
        sizes = [0, 1, 2, 3]
        shapes = [()] + [(a,) for a in sizes] + [(a, b) for a in sizes for b in sizes]
        jobs = [(ds, ws, rep) for ds in shapes for ws in shapes for rep in ('list', 'tensor', 'patterned')
                if (len(ds) == len(ws) or (len(ds) + len(ws) <= 3))
                and not (rep == 'list' and 0 in ws[:-1])]      # a nested list cannot express a shape with a zero before the last axis
        for k, (ds, ws, rep) in enumerate(jobs):
            if k % nshards != shard_i:
                continue
            V = symvals.Vars()
            n = math.prod(ws)
            conc = rep == 'list'          # nested lists go through torch.tensor(float(...)): concrete sentinels
            elems = [float(1.5 + i) for i in range(n)] if conc else [V.elem(f'w{i}', 'viterbi', 'F') for i in range(n)]
            B = B20('viterbi', torch.float32)
            sx.LOG_MODE[0] = False
            sx.FORK[0] = False
            sx.ABSTRACT[0] = False
            col.case(('ff', ds, ws, rep), nontrivial=n > 0, sample={'domain_sizes': ds, 'weight_shape': ws, 'given_as': rep})

            def body():
                items, f = R.check_factor_shape(B, ds, ws, rep, elems)
                return claims_of(items)

            def make_replay(vals, name):
                return {'part': 'factor', 'dsizes': list(ds), 'wshape': list(ws), 'rep': rep, 'values': TL.jsonable(vals), 'claim': name}
            TL.explore(col, V, body, {'part': 'FiniteFactor', 'rep': rep}, make_replay, label='factor')
        # ---- binding of factors to labels
        types = [[], ['L'], ['M'], ['L', 'L'], ['L', 'M']]
        fsz = [[], [2], [3], [2, 2], [2, 3], [3, 2]]
        domsets = [{'L': 2, 'M': 3}, {'L': 2}, {}]
        binds = [(t, term, f, pre, dm, var) for t in types for term in (True, False) for f in fsz for pre in (False, True) for dm in range(len(domsets))
                 for var in ((0, 1, 2, 3, 4) if f else (0,))]
        for k, (t, term, f, pre, dm, var) in enumerate(binds):
            if k % nshards != shard_i:
                continue
            problems = R.check_binding(fggs, torch, t, term, f, pre, domsets[dm], var)
            col.case(('bind', tuple(t), term, tuple(f), pre, dm, var), nontrivial=True, sample={'label_type': t, 'terminal': term, 'factor_sizes': f, 'content_variant': var, 'already_bound': pre, 'domains': domsets[dm]})
            col.check(not problems)
            if problems:
                col.violation('binding', {'part': 'binding', 'problem': ' '.join(problems[0].split()[:3])},
                              {'part': 'binding', 'type': t, 'terminal': term, 'fsizes': f, 'pre': pre, 'domains': domsets[dm], 'variant': var}, note=problems[0])
    col.functions |= fns.names
    return col.result(symx.STATS)


def main():
    a = common.args()
    if a.replay:
        common.do_replay(PID, a.replay)
    t0 = time.time()
    merged = lib.merge(lib.run_sharded('c20', 'shard', a.tier, a.seed))
    code = lib.finish(
        PID, a.tier, a.seed, 'other', merged, t0,
        rule='FiniteDomain over every list of <=3 (quick) / <=4 (thorough) pairwise distinct values chosen by solver variables from a pool of ints, negative ints, strings incl. the empty string, a tuple, a float and None, plus a probe value; RangeDomain(n) for n<=4 with probes -2..5; '
             'FiniteFactor for every pair (domain sizes, weight shape) over sizes {0,1,2,3} and ranks <=2 with weights given as nested lists, Tensor or PatternedTensor (symbolic cells); every (label type, terminal?, factor sizes, content variant, already bound?, domain table) binding over a small universe (content variants: factor domains equal to the bound ones, one of them with other values of the same size, reordered, or an equal-size RangeDomain).',
        explanation='Domains: numberize/denumberize mutually inverse bijections, contains agrees, equality by content. Factors: accepted iff shapes agree; apply(values) returns exactly the symbolic cell at the numberized position (identity of terms, decided by the solver). '
                    'Binding: add_factor succeeds iff terminal, arity and every domain match and the label is unbound, a rejected call leaves the tables unchanged, add_domain rejects rebinding, shape() reports the domain sizes.',
        bounds={'domain_values': 3 if a.tier == 'quick' else 4, 'factor_rank': 2, 'sizes': '0..3'},
        assumptions=['domain values are hashable and pairwise distinct under ==', 'nested-list weights use concrete sentinels (float() is a C boundary)'],
        exhaustive=True, technique='bounded symbolic execution (symbolic value lists and shapes) + SMT identity of applied cells')
    sys.exit(code)


if __name__ == '__main__':
    main()
