"""C16 -- graphs and grammars stay well formed under any sequence of API calls."""
import itertools
import json
import sys
import time
import common
import boot          # noqa
import fggs
import z3
import symx
import lib
from oracles import c16_run as R

PID = 'C16'


def graph_calls(tier):
    nid = [0, 2] if tier == 'quick' else [0, 1, 2]          # indexes into NODE_IDS ('a', 'b', None)
    eid = [0, 2] if tier == 'quick' else [0, 1, 2]
    refs = [['n', 0], ['n', 1]] + [['new', l, i] for l in (0, 1) for i in ([2, 0] if tier == 'quick' else [2, 0, 1])]
    calls = [['add_node', l, i] for l in (0, 1) for i in nid]
    calls += [['remove_node', k] for k in (0, 1)]
    for lk, (name, typ, term) in enumerate(R.EDGE_LABELS[:R.N_GRAPH_LABELS]):
        for att in itertools.product(refs, repeat=len(typ)):
            for i in eid:
                calls.append(['add_edge', lk, [list(a) for a in att], i])
    calls += [['remove_edge', k] for k in (0, 1)]
    calls += [['set_ext', [list(a) for a in att]] for n in (0, 1, 2) for att in itertools.product(refs, repeat=n)]
    calls.append(['copy'])
    return calls


def hrg_calls(fgg):
    calls = [['add_rule', k] for k in range(len(R.RULES))]
    calls += [['set_start', k] for k in (3, 4, 0)] + [['set_start', 'X'], ['set_start', 'Z']]
    calls += [['add_edge_label', k] for k in range(len(R.EDGE_LABELS))]
    calls += [['add_node_label', 0], ['copy']]
    if fgg:
        calls += [['add_domain', 0, 2], ['add_domain', 0, 3], ['add_domain', 1, 2]]
        calls += [['add_factor', 0, [2]], ['add_factor', 0, [3]], ['add_factor', 1, [2]], ['add_factor', 2, [2, 2]], ['add_factor', 2, [2]], ['add_factor', 3, [2]],
                  ['new_finite_factor', 'f', [2]], ['new_finite_factor', 'g', [2, 2]], ['new_finite_factor', 'nope', [2]]]
    return calls


def explore(col, kind, calls, depth, shard_i, nshards, cap):
    """all call sequences up to `depth` (symbolic choice of each call), pruned at states already explored at least as deeply"""
    C = [z3.Int(f'call{i}') for i in range(depth)]
    visited = {}
    reps, recent = {}, []       # live representative objects per observed state (for == across histories)
    first = [k for k in range(len(calls)) if k % nshards == shard_i]
    for f0 in first:
        eng = symx.Engine(assumptions=[C[0] == f0] + [z3.And(c >= 0, c < len(calls)) for c in C])

        def body():
            seq = []
            idx = []
            for step in range(depth):
                k = symx.choose(C[step], 0, len(calls), free=step > 0)
                seq.append(calls[k])
                idx.append(k)
                out = {}
                if kind == 'graph':
                    problems, obs, trace = R.play_graph(fggs, seq, out=out)
                else:
                    problems, obs, trace = R.play_hrg(fggs, seq, fgg=(kind == 'fgg'), out=out)
                if not problems and 'obj' in out:
                    # == against representatives of states reached through other call sequences: the same state (equal) and the most recent other states (different)
                    rep = reps.get(obs)
                    others = [rep] if rep is not None and rep[1] != list(seq) else []
                    others += [r for r in recent if r[2] != obs][:2]
                    for other_obj, other_seq, other_obs in others:
                        pr = R.compare_objects(out['obj'], obs, other_obj, other_obs)
                        if pr:
                            return seq, [pr[0] + ' (other: ' + json.dumps(other_seq) + ')'], trace, other_seq
                    if obs not in reps:
                        reps[obs] = (out['obj'], list(seq), obs)
                        recent.insert(0, reps[obs])
                        del recent[6:]
                if problems:
                    return seq, problems, trace
                if cap(obs):
                    return seq, [], trace
                remaining = depth - step - 1
                seen = visited.get(obs)
                if seen is not None and seen[0] >= remaining and seen[1] != tuple(idx):
                    return seq, [], trace         # reached before through another prefix, explored at least as deeply
                if seen is None or seen[0] < remaining:
                    visited[obs] = (remaining, tuple(idx))
            return seq, [], trace
        paths = eng.run(body)
        for p in paths:
            if p.exc is not None:
                col.violation(kind, {'kind': kind, 'exception': type(p.exc).__name__}, {'kind': kind, 'calls': []}, note=repr(p.exc))
                continue
            seq, problems, trace = p.value[:3]
            other_seq = p.value[3] if len(p.value) > 3 else None
            col.case((kind, json.dumps(seq)), nontrivial=len(seq) >= 2, sample={'kind': kind, 'calls': seq, 'outcomes': [t[1] for t in trace]})
            col.check(not problems)
            if problems:
                msg = problems[0]
                col.violation(kind, {'kind': kind, 'problem': ' '.join(w for w in msg.split('(other:')[0].split() if w not in ('f', 'g', 'X', 'c'))[:70], 'last_call': seq[-1][0]},
                              {'kind': kind, 'calls': seq, 'other_calls': other_seq}, note=msg)
    return len(visited)


def shard(shard_i, nshards, tier, seed):
    col = lib.Collector()
    d = 3      # both tiers: sequences of 3 (Graph) / 4 (HRG, FGG) calls; the thorough tier enlarges the universe of ids and references instead (350 calls per step)
    with lib.Functions() as fns:
        pass
    ns = explore(col, 'graph', graph_calls(tier), d, shard_i, nshards,
                 cap=lambda obs: len(obs[1]) > 3 or len(obs[2]) > 2)
    nh = explore(col, 'hrg', hrg_calls(False), d + 1, shard_i, nshards, cap=lambda obs: len(obs[1]) > 3)
    nf = explore(col, 'fgg', hrg_calls(True), d + 1, shard_i, nshards, cap=lambda obs: len(obs[1]) > 2)
    r = col.result(symx.STATS)
    r['extra'] = {'states': ns + nh + nf, 'transitions': col.evaluations}
    r['functions'] = ['fggs.fggs.Graph.add_node', 'fggs.fggs.Graph.add_edge', 'fggs.fggs.Graph.remove_node', 'fggs.fggs.Graph.remove_edge', 'fggs.fggs.Graph.ext',
                      'fggs.fggs.Graph.copy', 'fggs.fggs.Graph.__eq__', 'fggs.fggs.Edge.__init__', 'fggs.fggs.Node.__init__', 'fggs.fggs.HRGRule.__post_init__',
                      'fggs.fggs.HRG.add_rule', 'fggs.fggs.HRG.start', 'fggs.fggs.HRG.copy', 'fggs.fggs.LabelingMixin.add_edge_label', 'fggs.fggs.LabelingMixin.add_node_label',
                      'fggs.fggs.InterpretationMixin.add_domain', 'fggs.fggs.InterpretationMixin.add_factor', 'fggs.fggs.InterpretationMixin.new_finite_factor', 'fggs.fggs.FGG.copy']
    return r


def main():
    a = common.args()
    if a.replay:
        common.do_replay(PID, a.replay)
    t0 = time.time()
    merged = lib.merge(lib.run_sharded('c16', 'shard', a.tier, a.seed))
    d = 3
    code = lib.finish(
        PID, a.tier, a.seed, 'other', merged, t0,
        rule='every sequence of up to %d (Graph) / %d (HRG, FGG) public API calls over a small universe: node labels L,M; node ids a,(b),implicit; edge labels f:(L), f:(M) [name clash], g:(L,L), X:(L), X:(M) [clash], c:(); '
             'calls add_node, remove_node, add_edge (attachments: existing or fresh nodes, ill-typed ones included), remove_edge, ext=, copy; add_rule (7 rule shapes incl. ill-typed and clashing ones), start= (label or name), add_edge_label, '
             'add_node_label, add_domain, add_factor / new_finite_factor (right and wrong arity/domain, rebinding), copy. Each call is a symbolic choice; sequences are pruned at states already explored at least as deeply.' % (d, d + 1),
        explanation='The call sequence is a vector of solver variables; the symbolic executor explores every sequence inside the bound (solver-complete partition of the choices). After every call: the representation invariant (attachment and external nodes are '
                    'nodes of the graph, unique ids, one label per edge-label name, typed edges, lhs type = rhs type, start registered, factors match domains) and, if the call raised, that every public observation is unchanged; copy: equal, observation-equal '
                    '(incl. label tables), independent (mutating the copy, incl. factor weights, leaves the original unchanged). == across histories: an object is compared with live representatives of states reached through OTHER call sequences -- '
                    'equal when every observation agrees (explicit ids), unequal when nodes, edges, externals, rules, start or label tables differ, symmetric, != its negation.',
        bounds={'graph_nodes': 3, 'graph_edges': 2, 'rules': 3, 'sequence_length': d},
        assumptions=['implicit ids are distinct (CPython id of live objects)'],
        exhaustive=True, technique='bounded symbolic execution over API call sequences (z3 path forking) with invariant and frame checks')
    sys.exit(code)


if __name__ == '__main__':
    main()
