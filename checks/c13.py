"""C13 -- equal and allclose decide (approximate) equality of the denoted tensors."""
import itertools
import math
import random
import sys
import time
import common
import boot      # noqa
import torch
import fggs
import z3
import sx
import symx
import lib
import symvals
import tensorlib as TL
from fggs import indices
from oracles import c13_run as R
from gen import patterns
from c06 import B6

PID = 'C13'
DEFS = [0.0, 1.0, 'inf', '-inf', 'nan']
TOLS = [(0.0, 0.0), (0.0, 1e-5), (1e-5, 1e-8), (0.0, 0.5)]


class B13(B6):
    @staticmethod
    def eq(a, b):
        return sx.eq(a, b)

    @staticmethod
    def same(a, b):
        return sx.same(a, b)

    @staticmethod
    def isnan(a):
        return sx.isnan(a)

    @staticmethod
    def not_(a):
        return sx.Not(a)

    @staticmethod
    def all_(xs):
        return sx.And(*xs)

    @staticmethod
    def isclose(a, b, rtol, atol, equal_nan):
        return sx.isclose(a, b, rtol, atol, equal_nan)

    def semiring(self, kind):
        return symvals.semiring_obj(fggs, kind, torch.float32)

    def zero_of(self, kind):
        return {'real': 0.0, 'viterbi': -math.inf, 'bool': False}[kind]

    def dtype_of_sr(self, kind):
        return torch.bool if kind == 'bool' else torch.float32


def cases(tier, seed):
    rng = random.Random(seed)
    shapes = [(2,), (3,), (2, 2), (2, 3)] if tier == 'quick' else [(2,), (3,), (4,), (2, 2), (2, 3), (3, 2), (4, 2), (2, 2, 2)]
    pcap = 10 if tier == 'quick' else 40
    cs = []
    for shape in shapes:
        tts = patterns.type_tuples(shape, depth=1)
        if len(tts) > (5 if tier == 'quick' else 14):
            tts = tts[:1] + rng.sample(tts[1:], (4 if tier == 'quick' else 13))
        for types in tts:
            rs = patterns.typed_recipes(types, max_phys=6, layouts=('contig', 'expand', 'perm'))
            tdesc = [patterns.depict_type(t) for t in types]
            pairs = list(itertools.product(rs, rs))
            if len(pairs) > pcap:
                pairs = pairs[:1] + rng.sample(pairs[1:], pcap - 1)
            for r1, r2 in pairs:
                for d1, d2 in rng.sample(list(itertools.product(DEFS, DEFS)), 4 if tier == 'quick' else 8):
                    ops = [{'recipe': r1, 'default': d1}, {'recipe': r2, 'default': d2}]
                    cs.append({'mode': 'equal', 'types': tdesc, 'operands': ops})
                    cs.append({'mode': 'equal_symmetric', 'types': tdesc, 'operands': ops})
                    tol = rng.choice(TOLS)
                    cs.append({'mode': 'allclose', 'types': tdesc, 'operands': ops, 'tol': tol, 'equal_nan': rng.random() < 0.5})
            for r in rs[: (6 if tier == 'quick' else 20)]:
                for d in DEFS:
                    o = [{'recipe': r, 'default': d}]
                    cs.append({'mode': 'equal_default', 'types': tdesc, 'operands': o})
                    cs.append({'mode': 'allclose_default', 'types': tdesc, 'operands': o, 'tol': rng.choice(TOLS)})
                    for m in ('clone', 'redense', 'reflexive'):
                        cs.append({'mode': m, 'types': tdesc, 'operands': o})
                    cs.append({'mode': 'repattern', 'types': tdesc, 'operands': o, 'other_default': rng.choice([0.0, 1.0, 'inf'])})
        # different shapes must be unequal
    cs.append({'mode': 'equal', 'types': ['2', '3'], 'operands': [{'recipe': patterns.typed_recipes([['n', 2]])[0], 'default': 0.0},
                                                                    {'recipe': patterns.typed_recipes([['n', 3]])[0], 'default': 0.0}]})
    # MultiTensor.allclose over present/absent blocks
    for kind in ('real', 'viterbi', 'bool'):
        for pa in ([], ['x'], ['y'], ['x', 'y']):
            for pb in ([], ['x'], ['y'], ['x', 'y']):
                for tol in ((0, 1e-5) if kind != 'bool' else (0,)):
                    cs.append({'mode': 'multi', 'semiring': kind, 'present': [pa, pb], 'tolv': tol, 'operands': []})
    return cs


def run_case(col, case):
    B = B13()
    sx.LOG_MODE[0] = False
    sx.FORK[0] = False
    sx.ABSTRACT[0] = False
    V = symvals.Vars()
    if case['mode'] == 'multi':
        k = case['semiring']
        elems = [[V.elem(f'a{j}_{i}', k, 'T') for i in range(3)] for j in range(2)]
        body = lambda: [(sx.Beq(g, w), n) for n, g, w in R.run_multi(B, case, elems)]
        feats = {'mode': 'multi', 'semiring': k, 'present': repr(case['present']), 'tol': case['tolv']}
    else:
        nunk = sum(patterns.nelems(o['recipe']) for o in case['operands'])
        cls = 'T' if nunk <= 6 else 'F'
        elems = [[V.elem(f'a{k}_{i}', 'any', cls) for i in range(patterns.nelems(o['recipe']))] for k, o in enumerate(case['operands'])]
        body = lambda: [(sx.Beq(g, w), n) for n, g, w in R.run(B, case, elems)]
        feats = {'mode': case['mode'], 'defaults': [str(o['default']) for o in case['operands']], 'tol': case.get('tol')}
    col.case(repr(case), nontrivial=True,
             sample={'mode': case['mode'], 'types': case.get('types'),
                     'operands': [patterns.depict(o['recipe']) + f" default={o['default']}" for o in case['operands']]})

    def make_replay(vals, name):
        d = dict(case)
        d['values'] = TL.jsonable(vals)
        d['claim'] = name
        return d
    TL.explore(col, V, body, feats, make_replay, label=case['mode'], timeout_ms=30000)


def shard(i, n, tier, seed):
    col = lib.Collector()
    cs = cases(tier, seed)
    mine = cs[i::n]
    with lib.Functions() as fns:
        for c in mine[:30]:
            run_case(col, c)
    col.functions |= fns.names
    for c in mine[30:]:
        run_case(col, c)
    return col.result(symx.STATS)


def main():
    a = common.args()
    if a.replay:
        common.do_replay(PID, a.replay)
    t0 = time.time()
    merged = lib.merge(lib.run_pool('c13', a.tier, a.seed))
    code = lib.finish(
        PID, a.tier, a.seed, 'other', merged, t0,
        rule='case = (mode in equal / equal_symmetric / allclose(rtol,atol,equal_nan) / equal_default / allclose_default / clone / redense / repattern / reflexive / MultiTensor.allclose, '
             'index types, one well-typed pattern + default per operand). Ordered pattern pairs over a common shape (overlapping, nested, disjoint, fully covering supports, shared axes, stride-0, permuted), '
             'defaults from {0,1,inf,-inf,nan} equal or different; tolerances {(0,0),(0,1e-5),(1e-5,1e-8),(0,0.5)}. Elements: any float incl. nan, +-inf (tagged) for <=6 unknowns, finite otherwise.',
        explanation='equal/allclose return Python bools, so each call forks the symbolic executor; on every path the solver decides  path-condition => (returned value == '
                    'conjunction over all cells of the IEEE / isclose comparison of the independently denoted dense tensors). MultiTensor.allclose: all present/absent block combinations over two keys.',
        bounds={'shapes': 'rank<=2 numel<=6 (quick) / rank<=3 numel<=8 (thorough)', 'pairs_per_type_cap': 10 if a.tier == 'quick' else 40},
        assumptions=['finite floats exact reals; isclose as documented by torch: |a-b| <= atol + rtol*|b|, equal infinities close'],
        regimes=['T (nan, +-inf tagged)', 'F'], technique='path-forking symbolic execution; SMT equivalence of returned bool with dense definition')
    sys.exit(code)


if __name__ == '__main__':
    main()
