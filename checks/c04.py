"""C04 -- viterbi returns a well-formed derivation of maximal weight."""
import itertools
import json
import math
import random
import sys
import time
import common
import boot      # noqa
import torch
import fggs
import z3
import sx
import symx
import lib
import symvals
import tensorlib as TL
from oracles import c04_run as R
from gen import grammars, recursive
from c02 import B2, ncells

PID = 'C04'


def cases(tier, seed=0):
    rng = random.Random(seed)
    cs = []
    fam = grammars.feature_set(3) + grammars.feature_set(1)
    A = grammars.single_rule_family(3)
    fam += rng.sample(A, 120 if tier == 'quick' else 600) + grammars.two_level_family(rng, 80 if tier == 'quick' else 500, 3)
    seen = set()
    for spec in fam:
        if grammars.is_recursive(spec) or grammars.features(spec)['duplicate_external']:
            continue      # a rule lists each external node once (hyperedge replacement identifies them with distinct host nodes)
        k = json.dumps(spec, sort_keys=True)
        if k in seen:
            continue
        seen.add(k)
        nunk = sum(math.prod(s) for s in grammars.weight_shapes(spec).values())
        if nunk > 12:
            continue
        typ = spec['nonterminals'][spec['start']]
        assts = list(itertools.product(*[range(spec['domains'][l]) for l in typ]))
        if len(assts) > 3:
            assts = rng.sample(assts, 3)
        for a in assts:
            cs.append({'spec': spec, 'start_asst': list(a), 'depth': None, 'name': 'nonrecursive'})
    for g in recursive.family():
        spec = g['spec']
        typ = spec['nonterminals'][spec['start']]
        N = ncells(spec)
        for a in itertools.product(*[range(spec['domains'][l]) for l in typ]):
            cs.append({'spec': spec, 'start_asst': list(a), 'depth': N + 2, 'name': g['name'], 'tol': 0, 'kmax': N + 2})
    return cs


def run_case(col, case):
    spec = case['spec']
    sx.LOG_MODE[0] = False
    sx.FORK[0] = False
    sx.ABSTRACT[0] = False
    shapes = grammars.weight_shapes(spec)
    names = sorted(shapes)
    feats = dict(grammars.features(spec))
    feats.update({'family': case['name']})
    col.case(json.dumps([spec, case['start_asst']], sort_keys=True), nontrivial=len(spec['rules']) > 0,
             sample={'rules': spec['rules'], 'start_asst': case['start_asst'], 'family': case['name']})
    V = symvals.Vars()
    flat = {}
    for n in names:
        row = []
        for i in range(math.prod(shapes[n])):
            e = V.elem(f'{n}_{i}', 'viterbi', 'T')
            V.assumptions.append(z3.Not(e.pinf))                 # log-weights in [-inf, +inf)
            if case['depth']:
                V.assumptions.append(e.v <= 0)                   # recursive shapes: no positive cycles
            row.append(e)
        flat[n] = row
    B = B2('viterbi', torch.float32)
    B.assume_finite = lambda best: symx.ENGINE.assume(sx.BoolZ(sx.Not(sx.eq(best, -math.inf))))

    def body():
        import ctypes
        old = sys.getrecursionlimit()
        sys.setrecursionlimit(400)
        try:
            out = R.run(B, case, flat)
        except (RecursionError, ctypes.ArgumentError):
            return [(False, 'finite_derivation', {'family_recursive': bool(case['depth'])})]
        finally:
            sys.setrecursionlimit(old)
        claims = [(not out['problems'], 'well_formed', {'problem': (out['problems'] or [''])[0][:80]})]
        if out['problems']:
            return claims
        claims.append((out['werr'] is None, 'derive_total', {'problem': str(out['werr'])}))
        if out['werr'] is not None:
            return claims
        finite = sx.Not(sx.eq(out['best'], -math.inf))
        claims.append((sx.Implies(finite, sx.same(out['weight'], out['best'])), 'weight_is_maximal'))
        if out['sp'] is not None:
            claims.append((sx.same(out['sp'], out['best']), 'viterbi_sum_product_is_maximum'))
        return claims

    def make_replay(vals, name):
        return {'spec': spec, 'start_asst': case['start_asst'], 'depth': case['depth'], 'kmax': case.get('kmax'), 'tol': case.get('tol'),
                'values': TL.jsonable(vals), 'claim': name}
    TL.explore(col, V, body, feats, make_replay, label=f"viterbi/{case['name']}", timeout_ms=30000)


def main():
    a = common.args()
    if a.replay:
        common.do_replay(PID, a.replay)
    t0 = time.time()
    merged = lib.merge(lib.run_pool('c04', a.tier, a.seed, case_timeout=200))
    code = lib.finish(
        PID, a.tier, a.seed, 'other', merged, t0,
        rule='case = (grammar, start assignment). Grammars: the C01 feature set (edgeless internal/external nodes, rules whose attached nodes are all external, f(v,v), nullary factors, nonterminals without rules, duplicate externals, chains, 3-edge rules), '
             'a seeded sample of the single-rule and two-level families, and the recursive shapes of C02 with non-positive log-weights. All log-weights symbolic in [-inf,+inf).',
        explanation='viterbi() runs on the z3-valued tensor model; arg-max back-pointers are symbolic integers and every use of one as an index forks the path (one path per feasible optimum/tie). Per path the returned FGGDerivation is checked concretely for '
                    'well-formedness (rule of the grammar for the rewritten nonterminal, one child per nonterminal edge, every node assigned a value in its domain, externals agree with the parent) and the solver decides, under the path condition, that the weight of '
                    'derive() (independent evaluator over the derived factor graph) equals the definitional maximum over all derivations x assignments whenever that maximum is finite, and equals the Viterbi-semiring sum_product.',
        bounds={'rule_nodes': 3, 'rule_edges': 4, 'weights': '<=12', 'recursive_depth': 'N+2 with N = number of cells'},
        assumptions=['no +inf log-weights (finite attained maximum is the property\'s precondition); recursive shapes: weights <= 0',
                     'torch.max tie-breaking: first maximal index (any maximiser is accepted by the claim)'],
        regimes=['T'], technique='path-forking symbolic execution (symbolic arg-max pointers) + SMT optimality queries (z3 LRA)')
    sys.exit(code)


if __name__ == '__main__':
    main()
