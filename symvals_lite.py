"""json <-> float helpers importable without z3 (replayers)"""
import math


def from_jsonable(x):
    if x == 'nan':
        return math.nan
    if x == 'inf':
        return math.inf
    if x == '-inf':
        return -math.inf
    return x
