#!/bin/sh
# Offline setup: nothing is built or installed.  Verifies the two interpreters, the
# solver, the pinned torch_semiring_einsum sources, and that the torch model can run the
# real fggs sources from /repo (a concrete smoke run).
set -e
HERE="$(cd "$(dirname "$0")" && pwd)"
python3-vt -c "import z3, crosshair; print('z3', z3.get_version_string())"
/venv/bin/python -c "import torch, torch_semiring_einsum; print('torch', torch.__version__)"
test -f /venv/lib/python3.12/site-packages/torch_semiring_einsum/extend.py
cd "$HERE" && PYTHONDONTWRITEBYTECODE=1 python3-vt -B selftest/smoke.py
# translation validation of the torch model: the repository's own unit tests (incl. gradcheck) run on the model in concrete mode
mkdir -p "$HERE/scratch"
cd "$HERE" && { PYTHONDONTWRITEBYTECODE=1 python3-vt -B selftest/repo_tests_on_model.py > "$HERE/scratch/model_tests.log" 2>&1 || { tail -30 "$HERE/scratch/model_tests.log"; echo "model validation failed"; exit 1; }; }
tail -1 "$HERE/scratch/model_tests.log"
echo setup ok
