"""sx -- scalar domain of the symbolic torch model.

A tensor element is one of
  * a concrete Python bool / int / float,
  * a z3 BoolRef            (element of a bool tensor),
  * a z3 ArithRef of sort Int (element of an integer tensor),
  * SX   -- an extended real: z3 Real `v` plus IEEE tags nan/pinf/ninf
            (each a Python bool when known, else a z3 Bool) and optional sign
            knowledge used only for constant folding,
  * LogV -- a log-domain float represented by its exponential e in [0,inf]
            (an SX or a concrete float).

All arithmetic follows IEEE-754 on the tags and is exact on finite values
(no rounding, no overflow of finite operands, +0 == -0).
"""
import math
import z3
from fractions import Fraction


class Unmodelled(Exception):
    """An operation for which the symbolic model has no reading.  A case that
    raises it is reported as not-applicable, never as a pass."""


# --------------------------------------------------------------------------
# Boolean smart constructors: arguments are Python bools or z3 BoolRefs.

def is_z(x):
    return isinstance(x, z3.ExprRef)


def And(*a):
    out = []
    for x in a:
        if x is True:
            continue
        if x is False:
            return False
        out.append(x)
    if not out:
        return True
    return out[0] if len(out) == 1 else z3.And(*out)


def Or(*a):
    out = []
    for x in a:
        if x is False:
            continue
        if x is True:
            return True
        out.append(x)
    if not out:
        return False
    return out[0] if len(out) == 1 else z3.Or(*out)


def Not(a):
    if a is True:
        return False
    if a is False:
        return True
    return z3.Not(a)


def Implies(a, b):
    return Or(Not(a), b)


def BoolZ(a):
    return a if is_z(a) else z3.BoolVal(bool(a))


def Beq(a, b):
    if not is_z(a) and not is_z(b):
        return bool(a) == bool(b)
    if not is_z(a):
        return b if a else z3.Not(b)
    if not is_z(b):
        return a if b else z3.Not(a)
    return a == b


def IteB(c, a, b):
    if c is True:
        return a
    if c is False:
        return b
    if a is b:
        return a
    if not is_z(a) and not is_z(b):
        if a == b:
            return a
        return c if a else z3.Not(c)
    return z3.If(c, BoolZ(a), BoolZ(b))


def to_bool(x):
    """bool-ness of a scalar element, as bool or z3 Bool."""
    if isinstance(x, (bool, int, float)):
        return x != 0
    if isinstance(x, z3.BoolRef):
        return x
    if isinstance(x, z3.ArithRef):
        return x != 0
    if isinstance(x, SX):
        return Not(x.iszero())
    if isinstance(x, LogV):
        return Not(eq(x, 0.0))
    raise Unmodelled(f'to_bool({type(x)})')


# --------------------------------------------------------------------------
# Real / Int helpers

def RV(x):
    """Python number -> z3 Real numeral (exact)."""
    if isinstance(x, bool):
        return z3.RealVal(int(x))
    if isinstance(x, int):
        return z3.RealVal(x)
    if isinstance(x, Fraction):
        return z3.RealVal(str(x))
    # a concrete float stands for the shortest decimal that prints it (0.4 is 2/5, not the
    # nearest double): concrete host arithmetic such as 1/2.5 then stays exact
    return z3.RealVal(str(Fraction(repr(float(x)))))


_R0 = z3.RealVal(0)
_R1 = z3.RealVal(1)


def _is0(v):
    return z3.is_rational_value(v) and v.numerator_as_long() == 0


def _is1(v):
    return z3.is_rational_value(v) and v.numerator_as_long() == 1 and v.denominator_as_long() == 1


def _rmul(a, b):
    if _is0(a) or _is0(b):
        return _R0
    if _is1(a):
        return b
    if _is1(b):
        return a
    return a * b


def _radd(a, b):
    if _is0(a):
        return b
    if _is0(b):
        return a
    return a + b


def IteR(c, a, b):
    if c is True:
        return a
    if c is False:
        return b
    if a is b or (z3.is_rational_value(a) and z3.is_rational_value(b) and a.eq(b)):
        return a
    return z3.If(c, a, b)


def IteI(c, a, b):
    """ints: Python int or z3 Int"""
    if c is True:
        return a
    if c is False:
        return b
    if not is_z(a) and not is_z(b) and a == b:
        return a
    return z3.If(c, a if is_z(a) else z3.IntVal(a), b if is_z(b) else z3.IntVal(b))


def _val_float(v):
    return v.numerator_as_long() / v.denominator_as_long()


# --------------------------------------------------------------------------

class SX:
    """Extended real.  Exactly one of: nan, pinf, ninf, finite(value v)."""
    __slots__ = ('v', 'nan', 'pinf', 'ninf', 'sg', 'num', 'den')

    def __init__(self, v, nan=False, pinf=False, ninf=False, sg=None, num=None, den=None):
        self.v = v
        self.nan = nan
        self.pinf = pinf
        self.ninf = ninf
        self.sg = sg      # None | '+' (v>0 when finite) | '0+' (v>=0 when finite)
        # optional structure  v == num/den  with den a positive finite term: lets (x/m)*m and
        # sums over a common denominator cancel syntactically (the log-sum-exp shift)
        self.num = num
        self.den = den

    # -- construction
    @staticmethod
    def const(x):
        if isinstance(x, SX):
            return x
        if isinstance(x, bool):
            x = float(x)
        if isinstance(x, (int, float, Fraction)):
            if isinstance(x, float):
                if math.isnan(x):
                    return SX(_R0, nan=True)
                if x == math.inf:
                    return SX(_R0, pinf=True)
                if x == -math.inf:
                    return SX(_R0, ninf=True)
            return SX(RV(x), sg=('+' if x > 0 else '0+' if x == 0 else None))
        if isinstance(x, z3.BoolRef):
            return SX(z3.If(x, _R1, _R0), sg='0+')
        if isinstance(x, z3.ArithRef):
            return SX(z3.ToReal(x) if x.is_int() else x)
        raise Unmodelled(f'SX.const({type(x)})')

    def collapse(self):
        """Return a Python float when fully concrete, else self."""
        if self.nan is True:
            return math.nan
        if self.pinf is True:
            return math.inf
        if self.ninf is True:
            return -math.inf
        if self.nan is False and self.pinf is False and self.ninf is False \
                and z3.is_rational_value(self.v):
            return _val_float(self.v)
        return self

    # -- classification (bool or z3 Bool)
    def inf(self):
        return Or(self.pinf, self.ninf)

    def fin(self):
        return Not(Or(self.nan, self.pinf, self.ninf))

    def iszero(self):
        if self.sg == '+':
            return False
        if z3.is_rational_value(self.v):
            return And(self.fin(), _is0(self.v))
        return And(self.fin(), self.v == 0)

    def vpos(self):
        if self.sg == '+':
            return True
        if z3.is_rational_value(self.v):
            return _val_float(self.v) > 0
        return self.v > 0

    def vneg(self):
        if self.sg in ('+', '0+'):
            return False
        if z3.is_rational_value(self.v):
            return _val_float(self.v) < 0
        return self.v < 0

    def pos(self):
        return Or(self.pinf, And(self.fin(), self.vpos()))

    def neg(self):
        return Or(self.ninf, And(self.fin(), self.vneg()))

    def __repr__(self):
        return f'SX({self.v}, nan={self.nan}, pinf={self.pinf}, ninf={self.ninf})'

    # no implicit truth value / hashing by value
    def __bool__(self):
        raise TypeError('SX has no concrete truth value; use engine.branch')


def _sg_mul(a, b):
    if a == '+' and b == '+':
        return '+'
    if a in ('+', '0+') and b in ('+', '0+'):
        return '0+'
    return None


def _sg_add(a, b):
    if a in ('+', '0+') and b in ('+', '0+'):
        return '+' if '+' in (a, b) else '0+'
    return None


def sx_mul(a, b):
    ia, ib = a.inf(), b.inf()
    za, zb = a.iszero(), b.iszero()
    nan = Or(a.nan, b.nan, And(ia, zb), And(ib, za))
    anyinf = Or(ia, ib)
    if anyinf is False:
        pinf = ninf = False
    else:
        ap, an, bp, bn = a.pos(), a.neg(), b.pos(), b.neg()
        pinf = And(Not(nan), anyinf, Or(And(ap, bp), And(an, bn)))
        ninf = And(Not(nan), anyinf, Or(And(ap, bn), And(an, bp)))
    v = None
    if a.den is not None and _definitely_finite(b) and b.v.eq(a.den):
        v = a.num
    elif b.den is not None and _definitely_finite(a) and a.v.eq(b.den):
        v = b.num
    return SX(_rmul(a.v, b.v) if v is None else v, nan, pinf, ninf, _sg_mul(a.sg, b.sg))


def _definitely_finite(a):
    return a.nan is False and a.pinf is False and a.ninf is False


def sx_add(a, b):
    nan = Or(a.nan, b.nan, And(a.pinf, b.ninf), And(a.ninf, b.pinf))
    pinf = And(Not(nan), Or(a.pinf, b.pinf))
    ninf = And(Not(nan), Or(a.ninf, b.ninf))
    num = den = None
    if a.den is not None and b.den is not None and a.den.eq(b.den):
        num, den = _radd(a.num, b.num), a.den
    elif a.den is not None and _definitely_finite(b) and _is0(b.v):
        num, den = a.num, a.den
    elif b.den is not None and _definitely_finite(a) and _is0(a.v):
        num, den = b.num, b.den
    return SX(_radd(a.v, b.v), nan, pinf, ninf, _sg_add(a.sg, b.sg), num, den)


def sx_neg(a):
    return SX(-a.v if not _is0(a.v) else a.v, a.nan, a.ninf, a.pinf, None)


def sx_div(a, b):
    ia, ib = a.inf(), b.inf()
    za, zb = a.iszero(), b.iszero()
    nan = Or(a.nan, b.nan, And(ia, ib), And(za, zb))
    res_inf = And(Not(nan), Or(ia, zb))
    if res_inf is False:
        pinf = ninf = False
    else:
        bpos = Or(b.pos(), zb)       # +0 convention
        pinf = And(res_inf, Or(And(a.pos(), bpos), And(a.neg(), b.neg())))
        ninf = And(res_inf, Or(And(a.pos(), b.neg()), And(a.neg(), bpos)))
    if _is1(b.v):
        q = a.v
    elif _is0(a.v):
        q = _R0
    else:
        q = a.v / b.v
    v = IteR(Or(ib, zb), _R0, q)
    num = den = None
    if _definitely_finite(a) and _definitely_finite(b) and b.sg == '+' and a.den is None and not z3.is_rational_value(b.v):
        num, den = a.v, b.v
    return SX(v, nan, pinf, ninf, _sg_mul(a.sg, b.sg), num, den)


def sx_lt(a, b):
    return And(Not(a.nan), Not(b.nan),
               Or(And(a.ninf, Not(b.ninf)),
                  And(b.pinf, Not(a.pinf)),
                  And(a.fin(), b.fin(), _vlt(a, b))))


def _vlt(a, b):
    if z3.is_rational_value(a.v) and z3.is_rational_value(b.v):
        return _val_float(a.v) < _val_float(b.v)
    if _is0(a.v):
        return b.vpos()
    if _is0(b.v):
        return a.vneg()
    return a.v < b.v


def _veq(a, b):
    if z3.is_rational_value(a.v) and z3.is_rational_value(b.v):
        return a.v.eq(b.v) or _val_float(a.v) == _val_float(b.v)
    if _is0(a.v):
        return b_iszero_v(b)
    if _is0(b.v):
        return b_iszero_v(a)
    if a.v is b.v or a.v.eq(b.v):
        return True
    return a.v == b.v


def b_iszero_v(a):
    if a.sg == '+':
        return False
    return a.v == 0


def sx_eq(a, b):
    """IEEE ==  (nan != nan)"""
    return And(Not(a.nan), Not(b.nan),
               Or(And(a.pinf, b.pinf), And(a.ninf, b.ninf),
                  And(a.fin(), b.fin(), _veq(a, b))))


def sx_le(a, b):
    return Or(sx_lt(a, b), sx_eq(a, b))


def sx_same(a, b):
    """semantic identity: both nan, or IEEE-equal"""
    return Or(And(a.nan, b.nan), sx_eq(a, b))


def sx_ite(c, a, b):
    if c is True:
        return a
    if c is False:
        return b
    return _abstract(SX(IteR(c, a.v, b.v), IteB(c, a.nan, b.nan), IteB(c, a.pinf, b.pinf),
                        IteB(c, a.ninf, b.ninf), a.sg if a.sg == b.sg else
                        ('0+' if a.sg in ('+', '0+') and b.sg in ('+', '0+') else None)))


def sx_max(a, b):
    """torch.maximum: nan if either is nan"""
    r = sx_ite(sx_lt(a, b), b, a)
    nan = Or(a.nan, b.nan)
    if nan is False:
        return r
    return SX(r.v, nan, And(Not(nan), r.pinf), And(Not(nan), r.ninf), r.sg)


def sx_min(a, b):
    r = sx_ite(sx_lt(b, a), b, a)
    nan = Or(a.nan, b.nan)
    if nan is False:
        return r
    return SX(r.v, nan, And(Not(nan), r.pinf), And(Not(nan), r.ninf), r.sg)


def sx_abs(a):
    neg = a.vneg()
    return SX(IteR(neg, -a.v, a.v), a.nan, Or(a.pinf, a.ninf), False,
              a.sg if a.sg in ('+', '0+') else '0+')


def sx_relu(a):
    # torch.relu(nan) = nan ; relu(-inf)=0
    return SX(IteR(Or(a.vneg(), a.ninf), _R0, a.v), a.nan, a.pinf, False,
              a.sg if a.sg in ('+', '0+') else '0+')


def sx_nan_to_num(a, nan, posinf, neginf):
    """nan/posinf/neginf: concrete Python floats (already resolved against dtype)."""
    r = a
    for flag, repl in ((a.nan, nan), (a.pinf, posinf), (a.ninf, neginf)):
        if flag is False:
            continue
        r = sx_ite(flag, SX.const(repl), r)
    # flags that were replaced by finite values vanish through sx_ite
    return r


# --------------------------------------------------------------------------
# LogV: log-domain value represented by its exponential

_consts = {}


def named_const(name, lo=None, hi=None):
    """uninterpreted positive real constant (e.g. exp(-1)); bounds are added to
    the global assumption list."""
    if name not in _consts:
        c = z3.Real(name)
        cs = [c > 0]
        if lo is not None:
            cs.append(c > RV(lo))
        if hi is not None:
            cs.append(c < RV(hi))
        _consts[name] = (c, cs)
    return _consts[name][0]


def const_assumptions():
    out = []
    for c, cs in _consts.values():
        out.extend(cs)
    return out


def exp_of_float(c):
    """exponential of a concrete log-domain float, as float or SX."""
    if isinstance(c, bool):
        c = float(c)
    if math.isnan(c):
        return math.nan
    if c == -math.inf:
        return 0.0
    if c == math.inf:
        return math.inf
    if c == 0:
        return 1.0
    if c > 0:
        for k in range(2, 65):
            if math.log(k) == c:
                return float(k)
        if c > 1e30:
            return SX(named_const('EXP_HUGE', lo=10 ** 6), sg='+')
    else:
        for k in range(2, 65):
            if -math.log(k) == c:
                return SX(RV(Fraction(1, k)), sg='+')
        if c == -1.0:
            return SX(named_const('EXP_M1', lo=Fraction(367879441, 10 ** 9),
                                  hi=Fraction(367879442, 10 ** 9)), sg='+')
        if c < -1e30:
            return SX(named_const('EXP_TINY', hi=Fraction(1, 10 ** 6)), sg='+')
    raise Unmodelled(f'exp of concrete log-domain value {c}')


class LogV:
    __slots__ = ('e',)

    def __init__(self, e):
        self.e = e          # SX or float, in [0, inf] (or nan)

    def sx(self):
        return SX.const(self.e)

    def __repr__(self):
        return f'LogV({self.e})'

    def __bool__(self):
        raise TypeError('LogV has no concrete truth value')

    def concrete(self):
        """log-domain Python float if e is concrete"""
        e = self.e
        if isinstance(e, SX):
            e = e.collapse()
        if isinstance(e, SX):
            return None
        if math.isnan(e):
            return math.nan
        if e == 0:
            return -math.inf
        if e == math.inf:
            return math.inf
        if e < 0:
            return math.nan
        return math.log(e)


LOG_MODE = [False]   # when set, torch.log of a *concrete* value yields LogV
FORK = [False]       # when set, selections on symbolic conditions (max, where, nan_to_num, ...)
                     # fork the path instead of building If-terms: every path then carries
                     # If-free (polynomial) arithmetic, which is what z3 decides quickly


ABSTRACT = [False]   # when set, the value of a symbolic selection is named by a fresh variable
                     # mu with the defining equation kept as a side constraint of the path:
                     # downstream arithmetic stays If-free, the solver unfolds a definition
                     # only where a proof needs it
_defs = []
_facts = []


class no_abstract:
    """oracle-side computations never introduce abstraction variables"""

    def __enter__(self):
        self.prev = (ABSTRACT[0], FORK[0])
        ABSTRACT[0] = False
        FORK[0] = False

    def __exit__(self, *a):
        ABSTRACT[0], FORK[0] = self.prev


_fresh = [0]


def reset_path():
    del _defs[:]
    del _facts[:]
    _fresh[0] = 0


def fresh_unspecified(prefix='unspec'):
    """an arbitrary float (any real, +-inf or nan): result of an operation whose contract leaves it unspecified"""
    _fresh[0] += 1
    n = f'{prefix}!{_fresh[0]}'
    p, q, r = z3.Bool(n + '!pinf'), z3.Bool(n + '!ninf'), z3.Bool(n + '!nan')
    _facts.append(z3.AtMost(p, q, r, 1))
    return SX(z3.Real(n), nan=r, pinf=p, ninf=q)


def path_defs():
    return list(_defs) + list(_facts)


def path_facts():
    return list(_facts)


def _abstract(r):
    if not ABSTRACT[0] or not isinstance(r, SX) or z3.is_rational_value(r.v) or z3.is_const(r.v):
        return r
    mu = z3.Real(f'mu!{len(_defs)}')
    _defs.append(mu == r.v)
    if r.sg == '+':
        _facts.append(mu > 0)
    elif r.sg == '0+':
        _facts.append(mu >= 0)
    return SX(mu, r.nan, r.pinf, r.ninf, r.sg)


def _decide(c):
    """under FORK: concretise a symbolic condition by forking the engine"""
    if FORK[0] and not isinstance(c, bool):
        import symx
        return symx.branch(c)
    return c


def as_log(x):
    if isinstance(x, LogV):
        return x
    if isinstance(x, (bool, int, float)):
        return LogV(exp_of_float(float(x)))
    raise Unmodelled(f'mixing log-domain and linear-domain symbolic values ({type(x)})')


# --------------------------------------------------------------------------
# Generic scalar operations (dispatch on representation)

def _num(x):
    return isinstance(x, (bool, int, float)) and not isinstance(x, bool) or isinstance(x, bool)


def _conc(x):
    return isinstance(x, (bool, int, float))


def _fin(r):
    return r.collapse() if isinstance(r, SX) else r


def lift(x):
    if isinstance(x, SX):
        return x
    if isinstance(x, LogV):
        raise Unmodelled('log-domain value used in linear arithmetic')
    return SX.const(x)


def _pymul(a, b):
    return a * b


def _pydiv(a, b):
    a = float(a); b = float(b)
    if b == 0:
        if a == 0 or math.isnan(a):
            return math.nan
        return math.copysign(math.inf, a)      # convention of the model: every zero is +0
    return a / b


def _int_like(x):
    return isinstance(x, (bool, int)) or (isinstance(x, z3.ArithRef) and x.is_int())


def mul(a, b):
    if _conc(a) and _conc(b):
        return a * b
    if isinstance(a, LogV) or isinstance(b, LogV):
        raise Unmodelled('product of log-domain values')
    if _int_like(a) and _int_like(b):
        return a * b
    return _fin(sx_mul(lift(a), lift(b)))


def add(a, b):
    if _conc(a) and _conc(b):
        return a + b
    if isinstance(a, LogV) or isinstance(b, LogV):
        a, b = as_log(a), as_log(b)
        return LogV(mul(a.e, b.e))
    if _int_like(a) and _int_like(b):
        return a + b
    return _fin(sx_add(lift(a), lift(b)))


def neg(a):
    if _conc(a):
        return -a
    if isinstance(a, LogV):
        return LogV(div(1.0, a.e))
    if _int_like(a):
        return -a
    return _fin(sx_neg(a))


def sub(a, b):
    if _conc(a) and _conc(b):
        return a - b
    if isinstance(a, LogV) or isinstance(b, LogV):
        a, b = as_log(a), as_log(b)
        return LogV(div(a.e, b.e))
    if _int_like(a) and _int_like(b):
        return a - b
    return _fin(sx_add(lift(a), sx_neg(lift(b))))


def div(a, b):
    if _conc(a) and _conc(b):
        return _pydiv(a, b)
    if isinstance(a, LogV) or isinstance(b, LogV):
        raise Unmodelled('quotient of log-domain values')
    return _fin(sx_div(lift(a), lift(b)))


def lt(a, b):
    if _conc(a) and _conc(b):
        return a < b
    if isinstance(a, LogV) or isinstance(b, LogV):
        a, b = as_log(a), as_log(b)
        return lt(a.e, b.e)
    if _int_like(a) and _int_like(b):
        return a < b
    return sx_lt(lift(a), lift(b))


def gt(a, b):
    return lt(b, a)


def eq(a, b):
    if _conc(a) and _conc(b):
        return a == b
    if isinstance(a, (z3.BoolRef,)) or isinstance(b, z3.BoolRef):
        return Beq(to_bool(a), to_bool(b))
    if isinstance(a, LogV) or isinstance(b, LogV):
        a, b = as_log(a), as_log(b)
        return eq(a.e, b.e)
    if _int_like(a) and _int_like(b):
        return a == b
    return sx_eq(lift(a), lift(b))


def ne(a, b):
    return Not(eq(a, b))


def le(a, b):
    if _conc(a) and _conc(b):
        return a <= b
    if isinstance(a, LogV) or isinstance(b, LogV):
        a, b = as_log(a), as_log(b)
        return le(a.e, b.e)
    if _int_like(a) and _int_like(b):
        return a <= b
    return sx_le(lift(a), lift(b))


def ge(a, b):
    return le(b, a)


def same(a, b):
    """semantic identity of two scalars (nan same as nan)."""
    if _conc(a) and _conc(b):
        if isinstance(a, float) and isinstance(b, float):
            if math.isnan(a) and math.isnan(b):
                return True
            # concrete floats on both sides: rounding noise of the host arithmetic is not a difference
            return a == b or (math.isfinite(a) and math.isfinite(b) and math.isclose(a, b, rel_tol=1e-9, abs_tol=1e-12))
        return a == b
    if isinstance(a, z3.BoolRef) or isinstance(b, z3.BoolRef) or isinstance(a, bool) or isinstance(b, bool):
        return Beq(to_bool(a), to_bool(b))
    if isinstance(a, LogV) or isinstance(b, LogV):
        a, b = as_log(a), as_log(b)
        return same(a.e, b.e)
    if _int_like(a) and _int_like(b):
        return a == b
    return sx_same(lift(a), lift(b))


def maximum(a, b):
    if _conc(a) and _conc(b):
        if (isinstance(a, float) and math.isnan(a)) or (isinstance(b, float) and math.isnan(b)):
            return math.nan
        return max(a, b)
    if isinstance(a, LogV) or isinstance(b, LogV):
        a, b = as_log(a), as_log(b)
        return LogV(maximum(a.e, b.e))
    if _int_like(a) and _int_like(b):
        return IteI(a < b, b, a)
    if FORK[0]:
        a, b = lift(a), lift(b)
        if _decide(Or(a.nan, b.nan)):
            return math.nan
        return _fin(b if _decide(sx_lt(a, b)) else a)
    return _fin(sx_max(lift(a), lift(b)))


def minimum(a, b):
    if _conc(a) and _conc(b):
        if (isinstance(a, float) and math.isnan(a)) or (isinstance(b, float) and math.isnan(b)):
            return math.nan
        return min(a, b)
    if isinstance(a, LogV) or isinstance(b, LogV):
        a, b = as_log(a), as_log(b)
        return LogV(minimum(a.e, b.e))
    if _int_like(a) and _int_like(b):
        return IteI(b < a, b, a)
    if FORK[0]:
        a, b = lift(a), lift(b)
        if _decide(Or(a.nan, b.nan)):
            return math.nan
        return _fin(b if _decide(sx_lt(b, a)) else a)
    return _fin(sx_min(lift(a), lift(b)))


def absval(a):
    if _conc(a):
        return abs(a)
    if isinstance(a, LogV):
        raise Unmodelled('abs of log-domain value')
    if _int_like(a):
        return IteI(a < 0, -a, a)
    return _fin(sx_abs(a))


def relu(a):
    if _conc(a):
        if isinstance(a, float) and math.isnan(a):
            return a
        return a if a > 0 else type(a)(0)
    if isinstance(a, LogV):
        raise Unmodelled('relu of log-domain value')
    return _fin(sx_relu(lift(a)))


def ite(c, a, b):
    """select between two scalars of any (compatible) representation"""
    c = _decide(c)
    if c is True:
        return a
    if c is False:
        return b
    if isinstance(a, LogV) or isinstance(b, LogV):
        a, b = as_log(a), as_log(b)
        return LogV(ite(c, a.e, b.e))
    if (isinstance(a, (bool, z3.BoolRef))) and (isinstance(b, (bool, z3.BoolRef))):
        return IteB(c, a, b)
    if _int_like(a) and _int_like(b):
        return IteI(c, a, b)
    return _fin(sx_ite(c, lift(a), lift(b)))


def isnan(a):
    if _conc(a):
        return isinstance(a, float) and math.isnan(a)
    if isinstance(a, LogV):
        return isnan(a.e)
    if isinstance(a, SX):
        return a.nan
    return False


def isinf(a):
    if _conc(a):
        return isinstance(a, float) and math.isinf(a)
    if isinstance(a, LogV):
        e = lift(a.e)
        return Or(e.pinf, e.iszero())
    if isinstance(a, SX):
        return a.inf()
    return False


def nan_to_num(a, nan, posinf, neginf):
    """replacement values are concrete floats"""
    if isinstance(a, LogV):
        r = LogV(nan_to_num_lin(a.e, exp_of_float(nan), exp_of_float(posinf), None))
        # log-domain -inf is e == 0: replaced only if neginf != -inf
        if neginf != -math.inf:
            r = ite(eq(a.e, 0.0), as_log(neginf), r)
        return r
    return nan_to_num_lin(a, nan, posinf, neginf)


def nan_to_num_lin(a, nan, posinf, neginf):
    if _conc(a):
        if isinstance(a, float):
            if math.isnan(a):
                return nan
            if a == math.inf:
                return posinf
            if a == -math.inf and neginf is not None:
                return neginf
        return a
    if not isinstance(a, SX):
        return a
    r = a
    for flag, repl in ((a.nan, nan), (a.pinf, posinf), (a.ninf, neginf)):
        if flag is False or repl is None:
            continue
        flag = _decide(flag)
        if flag is True:
            return repl if not isinstance(repl, SX) else _fin(repl)
        r = sx_ite(flag, SX.const(repl) if not isinstance(repl, SX) else repl, r)
    return _fin(r)


EXP_ABSORB = [None]   # unit roundoff u when the one rounding effect modelled is on: exp(x) == 1.0 for 0 < 1-e^x < u


def exp(a):
    if _conc(a):
        try:
            return math.exp(a)
        except OverflowError:
            return math.inf
    if isinstance(a, LogV):
        u = EXP_ABSORB[0]
        if u is not None and isinstance(a.e, SX):
            # IEEE fact (round to nearest, faithful exp): for x in (log(1-u), 0) the float exp(x) is exactly 1.0
            gap = sub(1.0, a.e)
            return sx_ite(And(gt(gap, 0.0), lt(gap, u)), SX.const(1.0), a.e)
        return a.e
    raise Unmodelled('exp of a symbolic linear-domain value')


def log(a):
    if _conc(a):
        if LOG_MODE[0]:
            return LogV(abs(float(a)) if a == 0 else float(a)) if a >= 0 else math.nan
        a = float(a)
        if math.isnan(a) or a < 0:
            return math.nan
        if a == 0:
            return -math.inf
        return math.log(a)
    if isinstance(a, LogV):
        raise Unmodelled('log of a log-domain value')
    a = lift(a)
    # log of a negative number is nan
    neg_ = a.neg()
    if neg_ is False:
        return LogV(a)
    return LogV(_fin(sx_ite(neg_, SX.const(math.nan), a)))


def log1p(a):
    if _conc(a) and not LOG_MODE[0]:
        a = float(a)
        if a < -1 or math.isnan(a):
            return math.nan
        if a == -1:
            return -math.inf
        return math.log1p(a)
    if isinstance(a, LogV):
        raise Unmodelled('log1p of a log-domain value')
    return log(add(1.0, a))


def expm1(a):
    if _conc(a):
        try:
            return math.expm1(a)
        except OverflowError:
            return math.inf
    if isinstance(a, LogV):
        return sub(a.e, 1.0)
    raise Unmodelled('expm1 of a symbolic linear-domain value')


def recip(a):
    return div(1.0, a)


# --------------------------------------------------------------------------
# isclose as torch defines it:  |a-b| <= atol + rtol*|b|, equal infinities close

def isclose(a, b, rtol, atol, equal_nan=False):
    if isinstance(a, LogV) or isinstance(b, LogV):
        a, b = as_log(a), as_log(b)
        if rtol != 0:
            raise Unmodelled('isclose with rtol on log-domain values')
        ea, eb = lift(a.e), lift(b.e)
        bothnan = And(ea.nan, eb.nan)
        eqv = sx_eq(ea, eb)          # covers equal infinities (e=0 / e=inf)
        if atol == 0:
            close = eqv
        else:
            T = SX(named_const(f'EXP_TOL_{repr(atol)}', lo=1), sg='+')
            fin = And(ea.fin(), eb.fin(), Not(ea.iszero()), Not(eb.iszero()))
            close = Or(eqv, And(fin, sx_le(ea, sx_mul(eb, T)), sx_le(eb, sx_mul(ea, T))))
        return Or(close, And(equal_nan, bothnan)) if equal_nan else close
    if _conc(a) and _conc(b):
        a = float(a); b = float(b)
        if math.isnan(a) or math.isnan(b):
            return bool(equal_nan and math.isnan(a) and math.isnan(b))
        if a == b:
            return True
        if math.isinf(a) or math.isinf(b):
            return False
        return abs(a - b) <= atol + rtol * abs(b)
    a, b = lift(a), lift(b)
    eqv = sx_eq(a, b)
    fin = And(a.fin(), b.fin())
    if fin is False:
        close = eqv
    else:
        d = sx_abs(sx_add(a, sx_neg(b)))
        bound = SX.const(atol) if rtol == 0 else sx_add(SX.const(atol), sx_mul(SX.const(rtol), sx_abs(b)))
        close = Or(eqv, And(fin, sx_le(d, bound)))
    if equal_nan:
        return Or(close, And(a.nan, b.nan))
    return close


# --------------------------------------------------------------------------
# model evaluation

def eval_scalar(model, x):
    """value of a scalar element under a z3 model, as Python bool/int/float."""
    if _conc(x):
        return x
    if isinstance(x, LogV):
        e = eval_scalar(model, x.e)
        if isinstance(e, float) and math.isnan(e):
            return math.nan
        if e == 0:
            return -math.inf
        if e == math.inf:
            return math.inf
        return math.log(e) if e > 0 else math.nan
    if isinstance(x, SX):
        def b(f):
            if isinstance(f, bool):
                return f
            return z3.is_true(model.eval(f, model_completion=True))
        if b(x.nan):
            return math.nan
        if b(x.pinf):
            return math.inf
        if b(x.ninf):
            return -math.inf
        v = model.eval(x.v, model_completion=True)
        return _num_value(v)
    if isinstance(x, z3.BoolRef):
        return z3.is_true(model.eval(x, model_completion=True))
    if isinstance(x, z3.ArithRef):
        v = model.eval(x, model_completion=True)
        return _num_value(v)
    raise TypeError(type(x))


def _num_value(v):
    if z3.is_int_value(v):
        return v.as_long()
    if z3.is_rational_value(v):
        return v.numerator_as_long() / v.denominator_as_long()
    if z3.is_algebraic_value(v):
        a = v.approx(20)
        return a.numerator_as_long() / a.denominator_as_long()
    raise ValueError(f'cannot evaluate {v}')
