"""Symbolic carrier elements per semiring and value regime (DESIGN 3.2).

classes:  'F' finite element of the carrier (incl. the semiring zero where it is finite)
          'P' strictly positive finite (real/log) / finite (viterbi)
          'Z' the semiring zero (concrete)      'I' the infinite element (concrete)
          'T' tagged: any element of the carrier, special values symbolic
"""
import math
import z3
import sx


class Vars:
    def __init__(self):
        self.assumptions = []
        self.items = []      # (name, element)

    def elem(self, name, kind, cls='F'):
        e = self._elem(name, kind, cls)
        self.items.append((name, e))
        return e

    def _elem(self, name, kind, cls):
        if kind == 'bool':
            if cls == 'Z':
                return False
            if cls in ('I', 'P'):
                return True
            return z3.Bool(name)
        v = z3.Real(name)
        if kind in ('real', 'log'):
            wrap = (lambda x: x) if kind == 'real' else sx.LogV
            if cls == 'Z':
                return wrap(0.0)
            if cls == 'I':
                return wrap(math.inf)
            if cls == 'P':
                self.assumptions.append(v > 0)
                return wrap(sx.SX(v, sg='+'))
            if cls == 'F':
                self.assumptions.append(v >= 0)
                return wrap(sx.SX(v, sg='0+'))
            if cls == 'T':
                self.assumptions.append(v >= 0)
                return wrap(sx.SX(v, pinf=z3.Bool(name + '!inf'), sg='0+'))
        if kind == 'viterbi':
            if cls == 'Z':
                return -math.inf
            if cls == 'I':
                return math.inf
            if cls in ('P', 'F'):
                return sx.SX(v)
            if cls == 'T':
                p, n = z3.Bool(name + '!pinf'), z3.Bool(name + '!ninf')
                self.assumptions.append(z3.Not(z3.And(p, n)))
                return sx.SX(v, pinf=p, ninf=n)
        if kind == 'any':      # any float incl. nan and both infinities (fully tagged)
            if cls == 'F':
                return sx.SX(v)
            p, n, q = z3.Bool(name + '!pinf'), z3.Bool(name + '!ninf'), z3.Bool(name + '!nan')
            self.assumptions.append(z3.AtMost(p, n, q, 1))
            return sx.SX(v, nan=q, pinf=p, ninf=n)
        if kind == 'lin':      # unrestricted real (cotangents)
            return sx.SX(v)
        raise ValueError((kind, cls))

    def values(self, model):
        return {name: sx.eval_scalar(model, e) for name, e in self.items}


def semiring_obj(fggs, kind, dtype):
    if kind == 'real':
        return fggs.RealSemiring(dtype=dtype)
    if kind == 'log':
        return fggs.LogSemiring(dtype=dtype)
    if kind == 'viterbi':
        return fggs.ViterbiSemiring(dtype=dtype)
    return fggs.BoolSemiring()


def to_jsonable(x):
    if isinstance(x, float):
        if math.isnan(x):
            return 'nan'
        if x == math.inf:
            return 'inf'
        if x == -math.inf:
            return '-inf'
    return x


def from_jsonable(x):
    if x == 'nan':
        return math.nan
    if x == 'inf':
        return math.inf
    if x == '-inf':
        return -math.inf
    return x
