"""replayer for C16: exit 10 = reproduces, 11 = does not"""
import json, os, sys
sys.path.insert(0, os.path.dirname(os.path.dirname(os.path.abspath(__file__))))
import fggs
from oracles import c16_run as R
d = json.load(open(sys.argv[1]))
r = d['replay']
if r['kind'] == 'graph':
    problems, obs, trace = R.play_graph(fggs, r['calls'])
else:
    problems, obs, trace = R.play_hrg(fggs, r['calls'], fgg=(r['kind'] == 'fgg'))
if not problems and r.get('other_calls') is not None:
    o1, o2 = {}, {}
    if r['kind'] == 'graph':
        _, obs1, _ = R.play_graph(fggs, r['calls'], out=o1)
        _, obs2, _ = R.play_graph(fggs, r['other_calls'], out=o2)
    else:
        _, obs1, _ = R.play_hrg(fggs, r['calls'], fgg=(r['kind'] == 'fgg'), out=o1)
        _, obs2, _ = R.play_hrg(fggs, r['other_calls'], fgg=(r['kind'] == 'fgg'), out=o2)
    problems = R.compare_objects(o1['obj'], obs1, o2['obj'], obs2)
print('replay calls', r['calls'], 'outcomes', [t[1] for t in trace], 'problems', problems)
sys.exit(10 if problems else 11)
