"""replayer for C16: exit 10 = reproduces, 11 = does not"""
import json, os, sys
sys.path.insert(0, os.path.dirname(os.path.dirname(os.path.abspath(__file__))))
import fggs
from oracles import c16_run as R
d = json.load(open(sys.argv[1]))
r = d['replay']
if r['kind'] == 'graph':
    problems, obs, trace = R.play_graph(fggs, r['calls'])
else:
    problems, obs, trace = R.play_hrg(fggs, r['calls'], fgg=(r['kind'] == 'fgg'))
print('replay calls', r['calls'], 'outcomes', [t[1] for t in trace], 'problems', problems)
sys.exit(10 if problems else 11)
