"""replayer for C06 on real torch: exit 10 = reproduces, 11 = does not"""
import json, math, os, sys, traceback
sys.path.insert(0, os.path.dirname(os.path.dirname(os.path.abspath(__file__))))
sys.path.insert(0, os.path.dirname(os.path.abspath(__file__)))
import torch
import backend_float
from oracles import semiring_float as OF, c06_run as R
from gen import patterns
import symvals_lite as sv
from fggs import indices

d = json.load(open(sys.argv[1]))
r = d['replay']
B = backend_float.make('viterbi', 'float32')
B.tensor_dt = staticmethod(lambda flat, shape, dt: torch.tensor(list(flat), dtype=dt).reshape(tuple(shape)))
B.dtype_of = staticmethod(lambda kind: torch.bool if kind == 'bool' else torch.float32)
B.is_unmodelled = staticmethod(lambda e: False)
B.pylist = staticmethod(lambda x: [x])
R.install_invariant_hook(indices)
vals = {k: sv.from_jsonable(v) for k, v in r['values'].items()}
elems = []
for k, o in enumerate(r['operands']):
    n = patterns.nelems(o['recipe'])
    if r.get('concrete_elems'):
        row = [float(1.5 + 2 * k + 0.25 * i) for i in range(n)]
    else:
        dflt = False if o['elem'] == 'bool' else 0.5
        row = [vals.get(f'a{k}_{i}', dflt) for i in range(n)]
    elems.append(row)


def prim_eq(a, b):
    if isinstance(a, (list, tuple)) and isinstance(b, (list, tuple)):
        return len(a) == len(b) and all(prim_eq(x, y) for x, y in zip(a, b))
    if isinstance(a, str) or isinstance(b, str):
        return a == b
    if isinstance(a, bool) and isinstance(b, bool):
        return a == b
    return OF.close(a, b)


try:
    items = R.run_reshape(B, r, elems) if r['op'] == 'reshape' else R.run(B, r, elems)
except Exception as e:
    traceback.print_exc()
    print('replay: exception', type(e).__name__, e)
    sys.exit(10 if r.get('claim') == 'exception' else 11)
bad = []
for name, lhs, rhs in items:
    if len(lhs) != len(rhs) or not all(prim_eq(a, b) for a, b in zip(lhs, rhs)):
        bad.append((name, lhs[:8], rhs[:8]))
print('replay elems', elems, 'violations', bad)
sys.exit(10 if bad else 11)
