"""replayer for C11: exit 10 = reproduces, 11 = does not"""
import json, math, os, subprocess, sys, tempfile
HERE = os.path.dirname(os.path.abspath(__file__))
sys.path.insert(0, os.path.dirname(HERE))
sys.path.insert(0, HERE)
d = json.load(open(sys.argv[1]))
r = d['replay']
part = r.get('part')
if part == 'oo':
    # replay the original check's counterexample under the same interpreter flag
    f = tempfile.NamedTemporaryFile('w', suffix='.json', delete=False)
    json.dump(r['payload'], f); f.close()
    p = subprocess.run([sys.executable, r['flag'], '-B', os.path.join(HERE, r['origin'].lower() + '.py'), f.name], env=os.environ)
    os.unlink(f.name)
    sys.exit(p.returncode)
if part == 'j_precompute':
    p = subprocess.run([sys.executable, '-B', os.path.join(HERE, 'c03.py'), sys.argv[1]], env=os.environ)
    sys.exit(p.returncode)
import backend_float
from oracles import c11_run, semiring_float as OF
from gen import grammars
import symvals_lite as sv
vals = {k: sv.from_jsonable(v) for k, v in r['values'].items()}
prof = r.get('profile')
shapes = grammars.weight_shapes(r['spec'])
w = {}
c = 0
for n in sorted(shapes):
    row = []
    for i in range(math.prod(shapes[n])):
        v = vals.get(f'{n}_{i}')
        if v is None:
            v = 0.0 if prof and prof[c] == 'Z' else 0.75
        row.append(v)
        c += 1
    w[n] = row
Bs = {}
for kind, inj in (('real', lambda x: x), ('log', lambda x: math.log(x) if x > 0 else -math.inf), ('viterbi', lambda x: math.log(x) if x > 0 else -math.inf), ('bool', lambda x: x > 0)):
    B = backend_float.make(kind, 'float64')
    B.inject = staticmethod(inj)
    Bs[kind] = B
res = c11_run.cross_semiring(Bs, r, w)
bad = []
(sr_, fr), (sl, fl), (sv_, fv), (sb, fb) = res['real'], res['log'], res['viterbi'], res['bool']
if not (sr_ == sl == sv_ == sb):
    bad.append('shapes differ')
else:
    for i, (a, l, v, b) in enumerate(zip(fr, fl, fv, fb)):
        if not OF.close(math.exp(l) if l > -math.inf else 0.0, a):
            bad.append(('log vs real', i, l, a))
        if bool(b) != (a > 0):
            bad.append(('bool vs real', i, b, a))
        if v > l + 1e-9:
            bad.append(('viterbi above log', i, v, l))
print('replay weights', w, 'violations', bad)
sys.exit(10 if bad else 11)
