"""replayer for C18 on real torch: exit 10 = reproduces, 11 = does not"""
import json, math, os, sys, traceback, warnings
sys.path.insert(0, os.path.dirname(os.path.dirname(os.path.abspath(__file__))))
sys.path.insert(0, os.path.dirname(os.path.abspath(__file__)))
import torch
import backend_float
from oracles import c18_run as R
from gen import grammars, patterns
import symvals_lite as sv

d = json.load(open(sys.argv[1]))
r = d['replay']
vals = {k: sv.from_jsonable(v) for k, v in r['values'].items()}


def same(a, b):
    if isinstance(a, (list, tuple)) and isinstance(b, (list, tuple)):
        return len(a) == len(b) and all(same(x, y) for x, y in zip(a, b))
    if isinstance(a, float) and isinstance(b, float) and math.isnan(a) and math.isnan(b):
        return True
    return a == b          # identical: the same computation on unchanged inputs is bit-reproducible


def mk(kind, dt):
    B = backend_float.make(kind, dt)
    B.reset_tape = staticmethod(lambda: None)
    B.backward = staticmethod(lambda t, c: t.backward(c))
    B.ones_like = staticmethod(lambda t: torch.ones_like(t))
    B.dtype_of = staticmethod(lambda k: torch.bool if k == 'bool' else torch.float32)
    B.is_unmodelled = staticmethod(lambda e: False)
    return B


problems, items = [], []
try:
    if r['part'] == 'history':
        kind = r['semiring']
        B = mk(kind, 'float64')
        spec = r['spec']
        shapes = grammars.weight_shapes(spec) if r['weights'] else {}
        recs = {k: (v[0], v[1]) for k, v in r['recs'].items()}
        elems = {}
        for n in sorted(shapes):
            k = R.nweight_elems(shapes[n], recs[n])
            if r.get('concrete'):
                elems[n] = [{'real': 0.5 + 0.25 * i, 'log': -0.5 - 0.25 * i, 'viterbi': -0.5 - 0.25 * i, 'bool': i % 2 == 0}[kind] for i in range(k)]
            else:
                dflt = {'real': 0.75, 'log': -0.5, 'viterbi': -0.5, 'bool': True}[kind]
                elems[n] = [vals.get(f'{n}_{i}', dflt) for i in range(k)]
        Q = R.query_table(r)
        names = [n for n, _ in Q]
        hist = [names.index(n) for n in r['history_names']]
        with warnings.catch_warnings():
            warnings.simplefilter('ignore')
            problems, items = R.run_history(B, r, recs, elems, hist)
        print('history', r['history_names'], 'weights', elems)
    elif r['part'] == 'clone':
        B = mk('viterbi', 'float32')
        elems = []
        for k, o in enumerate(r['operands']):
            n = patterns.nelems(o['recipe'])
            dflt = False if o['elem'] == 'bool' else 0.5
            elems.append([vals.get(f'a{k}_{i}', dflt) for i in range(n)])
        problems, items = R.run_clone(B, r, elems)
        print('clone', r['op'], r['mode'], elems)
    else:
        B = mk(r['semiring'], 'float32')
        elems = [[vals.get(f'a{k}_{i}', 0.5) for i in range(4)] for k in range(3)]
        problems, items = R.run_multi_clone(B, r, elems)
        print('multi', r['step'], r['mode'], elems)
except Exception as e:
    traceback.print_exc()
    print('replay: exception', type(e).__name__, e)
    sys.exit(10 if r.get('claim') == 'exception' else 11)
bad = list(problems)
for name, lhs, rhs in items:
    if not same(list(lhs), list(rhs)):
        bad.append((name, list(lhs)[:8], list(rhs)[:8]))
print('violations', bad[:5])
sys.exit(10 if bad else 11)
