"""float backend on real torch, shared by replayers"""
import math
import torch
import fggs
from fggs import indices
from oracles import semiring_float as OF


def make(kind, dt):
    dtype = {'float32': torch.float32, 'float64': torch.float64, 'bool': torch.bool}[dt]
    if kind == 'bool':
        dtype = torch.bool

    class B:
        pass
    B.kind = kind
    B.torch = torch
    B.fggs = fggs
    B.indices = indices
    B.O = OF.BY_NAME[kind]
    B.dtype = dtype
    fdt = dtype if dtype != torch.bool else torch.float32
    B.sr = {'real': lambda: fggs.RealSemiring(dtype=fdt), 'log': lambda: fggs.LogSemiring(dtype=fdt),
            'viterbi': lambda: fggs.ViterbiSemiring(dtype=fdt), 'bool': lambda: fggs.BoolSemiring()}[kind]()
    B.pyzero, B.pyone, B.pytop = {'real': (0.0, 1.0, math.inf), 'log': (-math.inf, 0.0, math.inf),
                                  'viterbi': (-math.inf, 0.0, math.inf), 'bool': (False, True, True)}[kind]
    B.tensor = staticmethod(lambda elems, size: torch.tensor(list(elems), dtype=dtype).reshape(tuple(size)))
    B.int_tensor = staticmethod(lambda m: torch.tensor(m))
    B.const = staticmethod(lambda x: x)
    import contextlib
    B.oracle_ctx = staticmethod(contextlib.nullcontext)
    B.from_int_oracle = staticmethod(lambda m: B.O.from_int(m))
    B.all_eq = staticmethod(lambda ps, six: all(int(p) == int(v) for p, v in zip(ps, six)))
    B.same = staticmethod(lambda a, b: OF.close(a, b))
    return B
