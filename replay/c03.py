"""replayer for C03 on real torch: exit 10 = reproduces, 11 = does not"""
import json, math, os, sys, traceback
sys.path.insert(0, os.path.dirname(os.path.dirname(os.path.abspath(__file__))))
sys.path.insert(0, os.path.dirname(os.path.abspath(__file__)))
import torch
import backend_float
from oracles import semiring_float as OF, c03_run as R
from gen import grammars
import symvals_lite as sv

d = json.load(open(sys.argv[1]))
r = d['replay']
kind = r['semiring']
B = backend_float.make(kind, 'float64')
B.is_unmodelled = staticmethod(lambda e: False)
B.sadd = staticmethod(lambda a, b: a + b)
B.smul = staticmethod(lambda a, b: a * b)
B.sdiv = staticmethod(lambda a, b: a / b if b != 0 else math.nan)
B.lin = staticmethod((lambda x: math.exp(x)) if kind == 'log' else (lambda x: x))
B.assume_positive = staticmethod(lambda zs: None)
B.assume_all = staticmethod(lambda cs: None)
B.ssub = staticmethod(lambda a, b: a - b)
B.eq = staticmethod(lambda a, b: a == b)
B.lt = staticmethod(lambda a, b: a < b)
B.reset_tape = staticmethod(lambda: None)
B.backward = staticmethod(lambda t, c: t.backward(c))
vals = {k: sv.from_jsonable(v) for k, v in r['values'].items()}
prof = r.get('profile')
shapes = grammars.weight_shapes(r['spec'])
flat = {}
c = 0
for n in sorted(shapes):
    row = []
    for i in range(math.prod(shapes[n])):
        v = vals.get(f'{n}_{i}')
        if n in (r.get('concrete') or {}):
            cv = float(r['concrete'][n][i])
            v = cv if kind == 'real' else (math.log(cv) if cv > 0 else -math.inf)
        if v is None:
            v = B.pyzero if prof and prof[c] == 'Z' else {'real': 0.75, 'log': -0.5}[kind]
        row.append(v)
        c += 1
    flat[n] = row
typ = r['spec']['nonterminals'][r['spec']['start']]
nout = max(1, math.prod(r['spec']['domains'][l] for l in typ))
cot = [vals.get(f'c{j}', 1.0) for j in range(nout)]
try:
    if r.get('recursive'):
        zv = [vals.get(f'z_{n}', 1.0) for n in r['scc']]
        cot = [vals.get(f'c{j}', 1.0) for j in range(len(r['scc']))]
        items, Z = R.run_recursive_backward(B, r, flat, zv, cot), zv
    elif r.get('linrec'):
        items, Z = R.run_linear_recursive(B, r, flat, cot), None
    else:
        items, Z = R.run_nonrecursive(B, r, flat, cot)
except Exception as e:
    traceback.print_exc()
    print('replay: exception', type(e).__name__, e)
    sys.exit(10 if r.get('claim') == 'exception' else 11)
bad = []
for name, got, want in items:
    if len(got) != len(want) or not all(OF.close(a, b, rtol=1e-5, atol=1e-8) for a, b in zip(got, want)):
        bad.append((name, got, want))
print('replay weights', flat, 'cotangent', cot, 'Z', Z, 'violations', bad)
sys.exit(10 if bad else 11)
