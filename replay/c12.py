"""replayer for C12 on real torch: exit 10 = reproduces, 11 = does not"""
import json, math, os, sys, traceback
sys.path.insert(0, os.path.dirname(os.path.dirname(os.path.abspath(__file__))))
sys.path.insert(0, os.path.dirname(os.path.abspath(__file__)))
import backend_float
from oracles import semiring_float as OF, c12_run as R
from gen import grammars
import symvals_lite as sv

d = json.load(open(sys.argv[1]))
r = d['replay']
kind = r['semiring']
B = backend_float.make(kind, 'float64')
B.reset_tape = staticmethod(lambda: None)
B.backward = staticmethod(lambda t, c: t.backward(c))
vals = {k: sv.from_jsonable(v) for k, v in r['values'].items()}
shapes = grammars.weight_shapes(r['spec'])
dflt = {'real': 0.75, 'log': -0.5, 'viterbi': -0.5, 'bool': True}[kind]
flat = {n: [vals.get(f'{n}_{i}', dflt) for i in range(math.prod(shapes[n]))] for n in sorted(shapes)}
for n, cv in (r.get('concrete') or {}).items():
    flat[n] = [float(v) for v in cv]
ch = r['choice']
ch['rule_perm'] = tuple(ch['rule_perm'])
ch['edge_perm'] = {int(k): tuple(v) for k, v in ch.get('edge_perm', {}).items()}
ch['node_rev'] = {int(k): v for k, v in ch.get('node_rev', {}).items()}
typ = r['spec']['nonterminals'][r['spec']['start']]
nout = max(1, math.prod(r['spec']['domains'][l] for l in typ))
cot = [vals.get(f'c{j}', 1.0) for j in range(nout)] if r.get('grad') else None
try:
    items = R.run(B, r, flat, cot)
except Exception as e:
    traceback.print_exc()
    sys.exit(10 if r.get('claim') == 'exception' else 11)
bad = []
for name, lhs, rhs in items:
    if len(lhs) != len(rhs) or not all((a == b) if isinstance(a, int) and not isinstance(a, bool) else OF.close(a, b) for a, b in zip(lhs, rhs)):
        bad.append((name, lhs[:6], rhs[:6]))
print('replay weights', flat, 'choice', ch, 'violations', bad)
sys.exit(10 if bad else 11)
