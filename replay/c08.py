"""replayer for C08 on real torch: exit 10 = reproduces, 11 = does not"""
import json, math, os, sys
sys.path.insert(0, os.path.dirname(os.path.dirname(os.path.abspath(__file__))))
import torch, fggs
from fggs import indices
from oracles import semiring_float as OF, c08_laws as L
import symvals_lite as sv

d = json.load(open(sys.argv[1]))
r = d['replay']
kind, dt, law = r['semiring'], r['dtype'], r['law']
vals = {k: sv.from_jsonable(v) for k, v in r['values'].items()}
dtype = {'float32': torch.float32, 'float64': torch.float64, 'bool': torch.bool}[dt]


class B:
    pass


B.kind = kind; B.torch = torch; B.fggs = fggs; B.indices = indices; B.O = OF.BY_NAME[kind]; B.dtype = dtype
B.sr = {'real': lambda: fggs.RealSemiring(dtype=dtype), 'log': lambda: fggs.LogSemiring(dtype=dtype),
        'viterbi': lambda: fggs.ViterbiSemiring(dtype=dtype), 'bool': lambda: fggs.BoolSemiring()}[kind]()
B.pyzero, B.pyone, B.pytop = {'real': (0.0, 1.0, math.inf), 'log': (-math.inf, 0.0, math.inf),
                              'viterbi': (-math.inf, 0.0, math.inf), 'bool': (False, True, True)}[kind]
B.tensor = staticmethod(lambda elems, size: torch.tensor(list(elems), dtype=dtype).reshape(tuple(size)))
B.int_tensor = staticmethod(lambda m: torch.tensor(m))
B.const = staticmethod(lambda x: x)
B.from_int_oracle = staticmethod(lambda m: B.O.from_int(m))


def get(prefix, n):
    return [vals.get(f'{prefix}{i}', B.pyzero) for i in range(n)]


try:
    if law == 'binary':
        items = L.law_binary(B, r['op'], get('x', L.nelems(r['xspec'])), get('y', L.nelems(r['yspec'])), r['xspec'], r['yspec'])
    elif law == 'algebra':
        items = L.law_algebra(B, get('x', 3))
    elif law == 'sum':
        items = L.law_sum(B, get('x', 4))
    elif law == 'star':
        items = L.law_star(B, get('x', 1), vals.get('y', B.pyzero))
    elif law == 'star_absorb':
        # any member of the absorption class manifests: take x = -u/2 and validate the class fact on real torch
        x = -(2.0 ** -26) if dt == 'float32' else -(2.0 ** -55)
        assert torch.exp(torch.tensor(x, dtype=dtype)).item() == 1.0 and x < 0
        items = L.law_star_absorb(B, [x])
    elif law == 'from_int':
        items = L.law_from_int(B, int(vals.get('m', 0)), int(vals.get('n', 0)))
    else:
        items = L.law_eye(B)
except Exception as e:
    import traceback; traceback.print_exc()
    print('replay: exception', type(e).__name__, e)
    sys.exit(10 if r.get('claim') == 'exception' else 11)
bad = []
for name, lhs, rhs, prem in items:
    if lhs is None:
        pre, concl = prem
        if pre and not concl:
            bad.append((name, 'premise holds, conclusion fails'))
    else:
        for i, (a, b) in enumerate(zip(lhs, rhs)):
            if prem is not None and not prem[i]:
                continue
            if not OF.close(a, b):
                bad.append((name, i, a, b))
print('replay values', vals, 'violations', bad)
sys.exit(10 if bad else 11)
