"""replayer for C20: exit 10 = reproduces, 11 = does not"""
import json, math, os, sys
sys.path.insert(0, os.path.dirname(os.path.dirname(os.path.abspath(__file__))))
sys.path.insert(0, os.path.dirname(os.path.abspath(__file__)))
import torch, fggs
import backend_float
from oracles import c20_run as R, semiring_float as OF
d = json.load(open(sys.argv[1]))
r = d['replay']
if r['part'] == 'finite':
    p = R.check_finite_domain(fggs, r['idxs'], r['probe'])
elif r['part'] == 'range':
    p = R.check_range_domain(fggs, r['n'], r['probe'])
elif r['part'] == 'binding':
    p = R.check_binding(fggs, torch, r['type'], r['terminal'], r['fsizes'], r['pre'], r['domains'], r.get('variant', 0))
else:
    B = backend_float.make('viterbi', 'float32')
    B.scalar_of = staticmethod(lambda t: t.item())
    n = math.prod(r['wshape'])
    elems = [float(1.5 + i) for i in range(n)]
    items, f = R.check_factor_shape(B, r['dsizes'], r['wshape'], r['rep'], elems)
    p = [name for name, a, b in items if len(a) != len(b) or not all(OF.close(x, y) if not isinstance(x, bool) else x == y for x, y in zip(a, b))]
print('replay', p)
sys.exit(10 if p else 11)
