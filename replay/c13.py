"""replayer for C13 on real torch: exit 10 = reproduces, 11 = does not"""
import json, math, os, sys, traceback
sys.path.insert(0, os.path.dirname(os.path.dirname(os.path.abspath(__file__))))
sys.path.insert(0, os.path.dirname(os.path.abspath(__file__)))
import torch, fggs
import backend_float
from oracles import semiring_float as OF, c13_run as R
from gen import patterns
import symvals_lite as sv

d = json.load(open(sys.argv[1]))
r = d['replay']
B = backend_float.make('viterbi', 'float32')
B.tensor_dt = staticmethod(lambda flat, shape, dt: torch.tensor(list(flat), dtype=dt).reshape(tuple(shape)))
B.dtype_of = staticmethod(lambda kind: torch.bool if kind == 'bool' else torch.float64)
B.eq = staticmethod(lambda a, b: a == b)
B.isnan = staticmethod(lambda a: isinstance(a, float) and math.isnan(a))
B.not_ = staticmethod(lambda a: not a)
B.all_ = staticmethod(lambda xs: all(xs))


def isclose(a, b, rtol, atol, equal_nan):
    a = float(a); b = float(b)
    if math.isnan(a) or math.isnan(b):
        return bool(equal_nan and math.isnan(a) and math.isnan(b))
    if a == b:
        return True
    if math.isinf(a) or math.isinf(b):
        return False
    return abs(a - b) <= atol + rtol * abs(b)


B.isclose = staticmethod(isclose)
B.semiring = staticmethod(lambda k: {'real': fggs.RealSemiring(dtype=torch.float64), 'viterbi': fggs.ViterbiSemiring(dtype=torch.float64), 'bool': fggs.BoolSemiring()}[k])
B.zero_of = staticmethod(lambda k: {'real': 0.0, 'viterbi': -math.inf, 'bool': False}[k])
B.dtype_of_sr = staticmethod(lambda k: torch.bool if k == 'bool' else torch.float64)
vals = {k: sv.from_jsonable(v) for k, v in r['values'].items()}
try:
    if r['mode'] == 'multi':
        dflt = B.zero_of(r['semiring'])
        elems = [[vals.get(f'a{j}_{i}', dflt) for i in range(3)] for j in range(2)]
        items = R.run_multi(B, r, elems)
    else:
        elems = [[vals.get(f'a{k}_{i}', 0.5) for i in range(patterns.nelems(o['recipe']))] for k, o in enumerate(r['operands'])]
        items = R.run(B, r, elems)
except Exception as e:
    traceback.print_exc()
    sys.exit(10 if r.get('claim') == 'exception' else 11)
bad = [(n, g, w) for n, g, w in items if bool(g) != bool(w)]
print('replay elems', elems, 'violations', bad)
sys.exit(10 if bad else 11)
