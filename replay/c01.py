"""replayer for C01 on real torch: exit 10 = reproduces, 11 = does not"""
import json, math, os, sys, traceback
sys.path.insert(0, os.path.dirname(os.path.dirname(os.path.abspath(__file__))))
sys.path.insert(0, os.path.dirname(os.path.abspath(__file__)))
import backend_float
from oracles import semiring_float as OF, c01_run as R
from gen import grammars
import symvals_lite as sv

d = json.load(open(sys.argv[1]))
r = d['replay']
kind = r['semiring']
B = backend_float.make(kind, r.get('dtype', 'float32'))
vals = {k: sv.from_jsonable(v) for k, v in r['values'].items()}
prof = r.get('profile')
shapes = grammars.weight_shapes(r['spec'])
flat = {}
c = 0
for n in sorted(shapes):
    row = []
    for i in range(math.prod(shapes[n])):
        v = vals.get(f'{n}_{i}')
        if v is None:
            if prof and c == prof[0]:
                v = B.pytop
            elif prof and c == prof[1]:
                v = B.pyzero
            else:
                v = {'real': 1.5, 'log': 0.5, 'viterbi': -0.5, 'bool': True}[kind]
        row.append(v)
        c += 1
    flat[n] = row
try:
    items = R.run(B, r, flat)
except Exception as e:
    traceback.print_exc()
    print('replay: exception', type(e).__name__, e)
    sys.exit(10 if r.get('claim') == 'exception' else 11)
bad = []
for name, lhs, rhs in items:
    if len(lhs) != len(rhs):
        bad.append((name, 'length'))
        continue
    for a, b in zip(lhs, rhs):
        ok = (a == b) if isinstance(a, str) or isinstance(b, str) else OF.close(a, b)
        if not ok:
            bad.append((name, a, b))
print('replay weights', flat, 'violations', bad[:6])
sys.exit(10 if bad else 11)
