"""replayer for C17: exit 10 = reproduces, 11 = does not"""
import json, os, sys
sys.path.insert(0, os.path.dirname(os.path.dirname(os.path.abspath(__file__))))
import fggs
from oracles import c17_run as R
d = json.load(open(sys.argv[1]))
r = d['replay']
p = R.check(fggs, r['g1'], r['g2'])
print('replay', p)
sys.exit(10 if p else 11)
