"""replayer for C04 on real torch: exit 10 = reproduces, 11 = does not"""
import json, math, os, sys, traceback
sys.path.insert(0, os.path.dirname(os.path.dirname(os.path.abspath(__file__))))
sys.path.insert(0, os.path.dirname(os.path.abspath(__file__)))
import backend_float
from oracles import semiring_float as OF, c04_run as R
from gen import grammars
import symvals_lite as sv

d = json.load(open(sys.argv[1]))
r = d['replay']
B = backend_float.make('viterbi', 'float64')
B.is_unmodelled = staticmethod(lambda e: False)
B.assume_finite = staticmethod(lambda best: None)
vals = {k: sv.from_jsonable(v) for k, v in r['values'].items()}
shapes = grammars.weight_shapes(r['spec'])
flat = {n: [vals.get(f'{n}_{i}', -0.5) for i in range(math.prod(shapes[n]))] for n in sorted(shapes)}
try:
    out = R.run(B, r, flat)
except RecursionError:
    print('replay: RecursionError (viterbi does not return a finite derivation)')
    sys.exit(10)
except Exception as e:
    traceback.print_exc()
    print('replay: exception', type(e).__name__, e)
    sys.exit(10 if r.get('claim') == 'exception' else 11)
bad = []
if out['problems']:
    bad.append(out['problems'][:3])
elif out['werr']:
    bad.append(out['werr'])
elif out['best'] != -math.inf:
    if not OF.close(out['weight'], out['best']):
        bad.append(('weight of the returned derivation', out['weight'], 'maximum', out['best']))
if out['sp'] is not None and not OF.close(out['sp'], out['best']):
    bad.append(('viterbi sum_product', out['sp'], 'maximum', out['best']))
print('replay weights', flat, 'violations', bad)
sys.exit(10 if bad else 11)
