"""replayer for C19: exit 10 = violation reproduces on the real code, 11 = does not"""
import json, sys, os
sys.path.insert(0, os.path.dirname(os.path.dirname(os.path.abspath(__file__))))
from oracles import c19_run
d = json.load(open(sys.argv[1]))
r = d['replay']
if d['kind'] == 'scc':
    msg = c19_run.run_scc(r['n'], r['edges'], r['key_order'], r['rev'])
elif d['kind'] == 'nthistory':
    msg = c19_run.run_ntgraph_history(r['spec'], r['mutation'])
else:
    msg = c19_run.run_ntgraph(r['spec'])
print('replay:', msg)
sys.exit(10 if msg else 11)
