"""replayer for C15: exit 10 = reproduces, 11 = does not"""
import json, os, sys
sys.path.insert(0, os.path.dirname(os.path.dirname(os.path.abspath(__file__))))
sys.path.insert(0, os.path.join(os.path.dirname(os.path.dirname(os.path.abspath(__file__))), 'checks'))
import fggs
from oracles import c15_run as R
d = json.load(open(sys.argv[1]))
r = d['replay']
if r['part'] == 'replace':
    p = R.check_replace(fggs, r['host'], r['repl'], 0)
    print('replay', p)
    sys.exit(10 if p else 11)
# confluence / derive: rebuild with the definitions of the check module (no z3 needed for these helpers)
import importlib.util
spec = importlib.util.spec_from_file_location('c15defs', os.path.join(os.path.dirname(os.path.dirname(os.path.abspath(__file__))), 'checks', 'c15_defs.py'))
m = importlib.util.module_from_spec(spec); spec.loader.exec_module(m)
hrg = m.build_hrg(fggs, m.GRAMMARS[r['grammar']])
if r['part'] == 'confluence':
    def sched(picks):
        it = iter(picks)
        return lambda k: min(next(it), k - 1)
    a = R.canon(R.apply_schedule(fggs, hrg, r['tree'], sched(r['picks'])))
    b = R.canon(R.apply_schedule(fggs, hrg, r['tree'], sched(r['ref_picks'])))
    print('replay confluence', a == b)
    sys.exit(10 if a != b else 11)
msg = m.check_derive(fggs, hrg, r['tree'], None)
print('replay derive', msg)
sys.exit(10 if msg else 11)
