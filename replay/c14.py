"""replayer for C14: exit 10 = reproduces, 11 = does not"""
import json, math, os, sys, itertools
sys.path.insert(0, os.path.dirname(os.path.dirname(os.path.abspath(__file__))))
sys.path.insert(0, os.path.join(os.path.dirname(os.path.dirname(os.path.abspath(__file__))), 'checks'))
import torch, fggs
from oracles import c14_run as R, denote, semiring_float as OF
import symvals_lite as sv
d = json.load(open(sys.argv[1]))
r = d['replay']
if r['part'] == 'hrg':
    p = R.check_hrg_roundtrip(fggs, r['spec'], r['imps'] + [1000, 1001, 1002, 1003, 1004, 1005])
elif r['part'] == 'reject':
    p = R.check_reject(fggs, r['n'], r['att'], r['ext'])
elif r['part'] == 'weights_to_json':
    import c14_defs
    p = c14_defs.weights_json_roundtrip(fggs, r['wspec'], r['cvals'])
elif r['part'] == 'fgg':
    import c14_defs
    p = c14_defs.fgg_roundtrip(fggs, torch, r['spec'], r['patterned'])
else:
    w = r['wspec']
    vals = {k: sv.from_jsonable(v) for k, v in r['values'].items()}
    n = max(1, math.prod(w['pshape']))
    elems = [vals.get(f'p{i}', 0.5 + i) for i in range(n)]
    pyd = lambda x: {'inf': math.inf, '-inf': -math.inf}.get(x, x) if isinstance(x, str) else x
    j = {'physical': R.nest(elems, w['pshape'])}
    for key in ('expand', 'vaxes'):
        if key in w:
            j[key] = w[key]
    if 'default' in w:
        j['default'] = pyd(w['default'])
    p = []
    try:
        t = fggs.json_to_weights(j)
        shape, cells, default = R.described_tensor(w, elems)
        gs, gc, gd, problems = denote.denote(t)
        p += problems[:1]
        if tuple(gs) != tuple(shape):
            p.append(('shape', gs, shape))
        else:
            for i in itertools.product(*[range(m) for m in shape]):
                if not OF.close(gc.get(i, gd), cells.get(i, pyd(default))):
                    p.append(('cell', i, gc.get(i, gd), cells.get(i, pyd(default))))
    except Exception as e:
        p.append(repr(e))
print('replay', p[:5])
sys.exit(10 if p else 11)
