"""replayer for C02 on real torch: exit 10 = reproduces, 11 = does not"""
import json, math, os, sys, traceback, itertools
sys.path.insert(0, os.path.dirname(os.path.dirname(os.path.abspath(__file__))))
sys.path.insert(0, os.path.dirname(os.path.abspath(__file__)))
import backend_float
from oracles import semiring_float as OF, c02_run as R
from gen import grammars
import symvals_lite as sv

d = json.load(open(sys.argv[1]))
r = d['replay']
kind = r['semiring']
B = backend_float.make(kind, 'float64')
B.is_unmodelled = staticmethod(lambda e: False)
vals = {k: sv.from_jsonable(v) for k, v in r['values'].items()}
prof = r.get('profile')
spec = r['spec']
shapes = grammars.weight_shapes(spec)
flat = {}
c = 0
for n in sorted(shapes):
    row = []
    for i in range(math.prod(shapes[n])):
        v = vals.get(f'{n}_{i}')
        if n in (r.get('patterned') or {}) and i // shapes[n][1] != i % shapes[n][1]:
            v = B.pyzero
        if v is None:
            cl = prof[c] if prof else 'P'
            v = {'Z': B.pyzero, 'I': B.pytop}.get(cl, {'real': 0.25, 'log': -1.5, 'viterbi': -0.5, 'bool': True}[kind])
        row.append(v)
        c += 1
    flat[n] = row
claim = r['claim']
out = R.run(B, r, flat)
exc = out['exception']
bad = []
exact = kind in ('bool', 'viterbi') or r['method'] == 'linear' or (r['method'] == 'newton' and r['linear'])
if r['method'] == 'linear' and not r['linear']:
    if not isinstance(exc, ValueError):
        bad.append('linear on a non-linear grammar did not raise ValueError: %r' % (exc,))
elif exc is not None:
    traceback.print_exception(type(exc), exc, exc.__traceback__)
    bad.append('exception %r' % (exc,))
else:
    if 'shape_error' in out or 'missing' in out:
        bad.append(('shape/missing', out.get('shape_error'), out.get('missing')))
    rv = out['values']
    O = B.O
    Gr = R.G(B, spec, out['weights'], rv)
    y = {nt: {ix: vals.get(f'y_{nt}_{"_".join(map(str, ix))}', B.pytop) for ix in rv[nt]} for nt in rv}
    Gy = R.G(B, spec, out['weights'], y)
    cells = [(nt, ix) for nt in rv for ix in rv[nt]]
    warned = out['warned']
    if kind in ('bool', 'viterbi') and r['kmax'] >= r['N'] + 1 and r['method'] == 'fixed-point' and warned:
        bad.append('budget of N+1 iterations exhausted in an idempotent semiring')
    if not warned:
        if all(O.le(Gy[nt][ix], y[nt][ix]) for nt, ix in cells) and not all(O.le(rv[nt][ix], y[nt][ix]) for nt, ix in cells):
            bad.append(('result above the pre-fixed point', y, rv))
        if exact:
            for nt, ix in cells:
                if not OF.close(rv[nt][ix], Gr[nt][ix]):
                    bad.append(('not a fixed point', nt, ix, rv[nt][ix], Gr[nt][ix]))
        else:
            if not (out['stops'] and out['stops'][-1]):
                bad.append('returned without a warning although the stopping criterion was not met')
            if r['method'] == 'fixed-point':
                for nt, ix in cells:
                    a, b = float(rv[nt][ix]), float(Gr[nt][ix])
                    if not (a == b or abs(a - b) <= r['tol'] * (1 + 1e-6)):
                        bad.append(('not stationary within tol', nt, ix, a, b))
print('replay weights', flat, 'warned', out['warned'], 'values', out['values'], 'violations', bad[:5])
sys.exit(10 if bad else 11)
