"""replayer for C07 on real torch: exit 10 = reproduces, 11 = does not"""
import json, math, os, sys, traceback
sys.path.insert(0, os.path.dirname(os.path.dirname(os.path.abspath(__file__))))
sys.path.insert(0, os.path.dirname(os.path.abspath(__file__)))
import backend_float
from oracles import semiring_float as OF, c07_run as R
from gen import patterns
import symvals_lite as sv

d = json.load(open(sys.argv[1]))
r = d['replay']
kind = r['semiring']
B = backend_float.make(kind, r.get('dtype', 'float32'))
vals = {k: sv.from_jsonable(v) for k, v in r['values'].items()}
prof = r.get('profile')
elems = []
c = 0
for k, o in enumerate(r['operands']):
    row = []
    for i in range(patterns.nelems(o['recipe'])):
        v = vals.get(f'a{k}_{i}')
        if v is None:
            if prof and c == prof[0]:
                v = B.pytop
            elif prof and c == prof[1]:
                v = B.pyzero
            else:
                v = B.pyone if not prof else (1.5 if kind == 'real' else 0.5)
        row.append(v)
        c += 1
    elems.append(row)
try:
    items = R.run(B, r, elems)
except Exception as e:
    traceback.print_exc()
    print('replay: exception', type(e).__name__, e)
    sys.exit(10 if r.get('claim') == 'exception' else 11)
bad = []
for it in items:
    name = it[0]
    if name == 'argmax_attains':
        for ci, conds in enumerate(it[1]):
            if not any(a and b for a, b in conds):
                bad.append((name, ci))
    else:
        for i, (a, b) in enumerate(zip(it[1], it[2])):
            if not OF.close(a, b):
                bad.append((name, i, a, b))
        if len(it[1]) != len(it[2]):
            bad.append((name, 'length'))
print('replay elems', elems, 'violations', bad)
sys.exit(10 if bad else 11)
