"""replayer for C10: exit 10 = reproduces, 11 = does not (treewidth by brute force over elimination orders, by subset DP beyond 6 vertices)"""
import json, os, sys
sys.path.insert(0, os.path.dirname(os.path.dirname(os.path.abspath(__file__))))
from oracles import c10_run, treedec
d = json.load(open(sys.argv[1]))
r = d['replay']
edges = [tuple(e) for e in r['edges']]
tw = treedec.treewidth_bruteforce(r['n'], edges) if r['n'] <= 6 else treedec.treewidth_dp(r['n'], edges)
p = c10_run.run(r['n'], edges, tw, r.get('order'))
print('replay: n', r['n'], 'edges', edges, 'treewidth', tw, 'problems', p)
sys.exit(10 if p else 11)
