"""replayer for C09 on real torch: exit 10 = reproduces, 11 = does not.
The leastness clause is replayed with the y of the counterexample (a concrete pre-fixed point below which x must lie)."""
import json, math, os, sys, traceback
sys.path.insert(0, os.path.dirname(os.path.dirname(os.path.abspath(__file__))))
sys.path.insert(0, os.path.dirname(os.path.abspath(__file__)))
import backend_float
from oracles import semiring_float as OF, c09_run as R
from gen import patterns
import symvals_lite as sv

d = json.load(open(sys.argv[1]))
r = d['replay']
kind = r['semiring']
B = backend_float.make(kind, 'float64')
vals = {k: sv.from_jsonable(v) for k, v in r['values'].items()}
prof = r.get('profile')
cnt = [0]


def val(name):
    v = vals.get(name)
    if v is None:
        c = prof[cnt[0]] if prof else 'P'
        v = {'Z': B.pyzero, 'I': B.pytop}.get(c, {'real': 0.25, 'log': -1.5, 'viterbi': -0.5, 'bool': True}[kind])
    cnt[0] += 1
    return v


entry = r['entry']


def conc(v):
    v = math.inf if v == 'inf' else float(v)
    return v if kind == 'real' else (math.log(v) if v > 0 else -math.inf)


if r.get('A') is not None and entry == 'solve':
    n, m = r['n'], r.get('m')
    elems = [[conc(v) for row in r['A'] for v in row], [val(f'b{i}') for i in range(n * (m or 1))]]
    ny = n * (m or 1)
elif r.get('A') is not None:
    M = r['A']
    n = len(M)
    rng_ = {'x': range(0, n - 1), 'y': range(n - 1, n)}
    r['ablocks'] = [tuple(x) for x in r['ablocks']]
    ea = {a + b: [conc(M[i][j]) for i in rng_[a] for j in rng_[b]] for a, b in r['ablocks']}
    numel = {'x': n - 1, 'y': 1}
    eb = {k: [val(f'b{k}{i}') for i in range(numel[k])] for k in r['bblocks']}
    elems = [ea, eb]
    ny = n
elif entry == 'solve':
    n, m = r['n'], r.get('m')
    elems = [[val(f'a{i}') for i in range(n * n)], [val(f'b{i}') for i in range(n * (m or 1))]]
    ny = n * (m or 1)
elif entry == 'pt_solve':
    sizes = [patterns.nelems(o['recipe']) for o in r['operands']]
    elems = [[val(f'a{i}') for i in range(sizes[0])], [val(f'b{i}') for i in range(sizes[1])]]
    rb = r['operands'][1]['recipe']
    ny = math.prod(patterns.numel(v, rb['psizes']) for v in rb['vaxes'])
else:
    numel = {k: math.prod(v) for k, v in r['shapes'].items()}
    r['ablocks'] = [tuple(x) for x in r['ablocks']]
    ea = {a + b: [val(f'a{a}{b}{i}') for i in range(numel[a] * numel[b])] for a, b in r['ablocks']}
    eb = {k: [val(f'b{k}{i}') for i in range(numel[k])] for k in r['bblocks']}
    elems = [ea, eb]
    ny = sum(numel.values())
yel = [vals.get(f'y{i}', B.pytop) for i in range(ny)]
try:
    items = R.run_dense(B, r, elems, yel) if entry == 'solve' else R.run_patterned(B, r, elems, yel) if entry == 'pt_solve' else R.run_multi(B, r, elems, yel)
except Exception as e:
    traceback.print_exc()
    print('replay: exception', type(e).__name__, e)
    sys.exit(10 if r.get('claim') == 'exception' else 11)
bad = []
for name, mode, lhs, rhs in items:
    if mode == 'eq':
        if lhs != rhs:
            bad.append((name, lhs, rhs))
    elif mode == 'same':
        if len(lhs) != len(rhs) or not all(OF.close(a, b) for a, b in zip(lhs, rhs)):
            bad.append((name, lhs, rhs))
    else:
        if all(lhs) and not all(rhs):
            bad.append((name, 'pre-fixed point y below which the result does not lie', yel))
print('replay elems', elems, 'y', yel, 'violations', bad)
sys.exit(10 if bad else 11)
