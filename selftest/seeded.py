#!/usr/bin/env python3
"""Seeded-change kill matrix.

  confirm <dir>   : in a scratch worktree outside /repo and /verif: the patch applies, the repository's
                    test suite still passes with it, the demo fails with it and passes without it
  run [ids...]    : for every /verif/seeded/<name>/ apply patch.diff to /repo, run the quick check(s)
                    of the property it breaks (meta.json: 'property', optional 'also_checks'), undo the patch,
                    and write /verif/seeded/RESULTS.json
"""
import json, os, subprocess, sys, tempfile, shutil, time
HERE = os.path.dirname(os.path.dirname(os.path.abspath(__file__)))
SEED = os.path.join(HERE, 'seeded')


def sh(cmd, cwd=None, timeout=3600):
    p = subprocess.run(cmd, shell=True, cwd=cwd, capture_output=True, text=True, timeout=timeout)
    return p.returncode, (p.stdout + p.stderr)


def confirm(name):
    d = os.path.join(SEED, name)
    wt = tempfile.mkdtemp(prefix='fggs_confirm_', dir='/tmp')
    os.rmdir(wt)
    out = {}
    try:
        rc, o = sh(f'git -C /repo worktree add -q --detach {wt} HEAD')
        assert rc == 0, o
        shutil.copytree(d, os.path.join(wt, 'seeded', 'x'))
        rc0, o0 = sh('/venv/bin/python seeded/x/demo.py', cwd=wt)
        out['demo_without'] = rc0
        rc, o = sh(f'git apply {d}/patch.diff', cwd=wt)
        out['applies'] = rc == 0
        rc1, o1 = sh('/venv/bin/python seeded/x/demo.py', cwd=wt)
        out['demo_with'] = rc1
        out['demo_with_tail'] = o1[-300:]
        rc, o = sh('/venv/bin/python -m pytest -q -p no:cacheprovider --timeout=900 -x 2>&1 | tail -2', cwd=wt)
        out['tests_with'] = o.strip()[-160:]
        out['confirmed'] = out['applies'] and rc0 == 0 and rc1 != 0 and 'passed' in o and 'failed' not in o
    finally:
        sh(f'git -C /repo worktree remove --force {wt}')
        shutil.rmtree(wt, ignore_errors=True)
    return out


def run(names, tier='quick', in_repo=False):
    """in_repo=False: the patch is applied to a scratch worktree and the checks run with FGGS_REPO pointing at it
    (so that /repo stays usable meanwhile); in_repo=True: the prescribed way, git -C /repo apply ... checkout -- ."""
    res_path = os.path.join(SEED, 'RESULTS.json')
    results = json.load(open(res_path)) if os.path.exists(res_path) else {}
    for name in names:
        d = os.path.join(SEED, name)
        meta = json.load(open(os.path.join(d, 'meta.json')))
        env = ''
        wt = None
        if in_repo:
            rc, o = sh('git -C /repo status --porcelain --untracked-files=no')
            assert o.strip() == '', 'repo not clean: ' + o
            rc, o = sh(f'git -C /repo apply {d}/patch.diff')
            assert rc == 0, o
        else:
            wt = tempfile.mkdtemp(prefix='fggs_seed_', dir='/tmp')
            os.rmdir(wt)
            rc, o = sh(f'git -C /repo worktree add -q --detach {wt} HEAD')
            assert rc == 0, o
            rc, o = sh(f'git apply {d}/patch.diff', cwd=wt)
            assert rc == 0, o
            env = f'FGGS_REPO={wt} '
        entry = {}
        try:
            for pid in [meta['property']] + meta.get('also_checks', []):
                t0 = time.time()
                rc, o = sh(f'{env}./vcheck {pid} --tier {tier}', cwd=HERE)
                viol = [l for l in o.splitlines() if l.startswith('VIOLATION')]
                entry[pid] = {'exit': rc, 'violations': len(viol), 'detected': rc == 1 and len(viol) > 0,
                              'wall_s': round(time.time() - t0, 1), 'tail': o.strip().splitlines()[-1][-200:] if o.strip() else ''}
        finally:
            if in_repo:
                sh('git -C /repo checkout -- .')
            else:
                sh(f'git -C /repo worktree remove --force {wt}')
                shutil.rmtree(wt, ignore_errors=True)
        results[name] = entry
        print(name, {k: (v['exit'], v['violations']) for k, v in entry.items()}, flush=True)
        json.dump(results, open(res_path, 'w'), indent=1)
    return results


if __name__ == '__main__':
    if sys.argv[1] == 'confirm':
        for n in sys.argv[2:]:
            print(n, json.dumps(confirm(n)))
    else:
        in_repo = '--in-repo' in sys.argv
        sys.argv = [a for a in sys.argv if a != '--in-repo']
        names = sys.argv[2:] or sorted(x for x in os.listdir(SEED) if os.path.isdir(os.path.join(SEED, x)))
        run(names, in_repo=in_repo)
