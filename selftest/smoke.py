"""setup-time smoke test: the torch model runs the real fggs sources concretely"""
import os, sys, json
sys.path.insert(0, os.path.dirname(os.path.dirname(os.path.abspath(__file__))))
import boot, torch, fggs
g = fggs.json_to_fgg(json.load(open(os.path.join(boot.REPO, 'test', 'hmm.json'))))
z = fggs.sum_product(g, method='newton').to_dense().item()
assert abs(z - 1.0) < 1e-6, z
print('smoke ok', z)
