#!/usr/bin/env python3
"""regenerate the two generated tables of DESIGN.md (findings, seeded-change matrix) between their markers"""
import json, os, re
HERE = os.path.dirname(os.path.dirname(os.path.abspath(__file__)))
p = os.path.join(HERE, 'DESIGN.md')
s = open(p).read()


def between(text, name, body):
    a, b = f'<!-- {name}:begin -->', f'<!-- {name}:end -->'
    i, j = text.index(a), text.index(b)
    return text[:i + len(a)] + '\n' + body + '\n' + text[j:]


d = json.load(open(os.path.join(HERE, 'known_findings.json')))
rows = ['| id | property | status | what |', '|---|---|---|---|']
for f in d['findings']:
    st = f['status'] + (' `' + f['commit'][:7] + '`' if f.get('commit') else '')
    rows.append(f"| {f['id']} | {f['property']} | {st} | {f['what'][:260].replace('|', '/')} |")
s = between(s, 'findings', '\n'.join(rows))

res = json.load(open(os.path.join(HERE, 'seeded', 'RESULTS.json')))
rows = ['| seed | breaks | needs, in order to manifest | quick check(s) run: detected? |', '|---|---|---|---|']
tot = hit = 0
for name in sorted(os.listdir(os.path.join(HERE, 'seeded'))):
    mp = os.path.join(HERE, 'seeded', name, 'meta.json')
    if not os.path.exists(mp):
        continue
    m = json.load(open(mp))
    r = res.get(name, {})
    cells = []
    ok = False
    for pid, e in r.items():
        cells.append(f"{pid}: {'**yes** (' + str(e['violations']) + ' replay-confirmed)' if e.get('detected') else 'no (exit ' + str(e.get('exit')) + ')'}")
        ok = ok or (e.get('detected') and pid == m['property'])
    tot += 1
    hit += bool(ok)
    note = m.get('note', '')
    rows.append(f"| {name} | {m['property']} | {m['needs_to_manifest'][:300].replace('|', '/')} | {'; '.join(cells) or 'not run'}{' — ' + note if note else ''} |")
rows.append('')
rows.append(f'{hit} of {tot} seeded changes are detected by the quick check of the property they break.')
s = between(s, 'matrix', '\n'.join(rows))
open(p, 'w').write(s)
print('DESIGN.md tables regenerated:', len(d['findings']), 'findings,', tot, 'seeds,', hit, 'detected')
