"""Translation validation of the torch model: run the repository's own unit tests
(unittest-style, 109 test functions incl. gradcheck) on top of symtorch in concrete mode.
usage: python3-vt -B selftest/repo_tests_on_model.py   (cwd = /verif)"""
import os, sys, unittest, warnings
sys.path.insert(0, os.path.dirname(os.path.dirname(os.path.abspath(__file__))))
import boot
os.chdir(boot.REPO)
warnings.simplefilter('ignore')
names = ['test.test_indices', 'test.test_semirings', 'test.test_multi', 'test.test_sum_product', 'test.test_viterbi',
         'test.test_factors', 'test.test_domains', 'test.test_fggs', 'test.test_formats', 'test.test_factorize',
         'test.test_conjunction', 'test.test_derivations', 'test.test_utils', 'test.test_equation']
suite = unittest.defaultTestLoader.loadTestsFromNames(names)
r = unittest.TextTestRunner(verbosity=0).run(suite)
print('tests_run', r.testsRun, 'failures', len(r.failures), 'errors', len(r.errors))
sys.exit(0 if r.wasSuccessful() else 3)
