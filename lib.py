"""lib -- common driver parts: case sharding, evidence, known findings, replay."""
import hashlib
import json
import multiprocessing as mp
import os
import subprocess
import sys
import time
import traceback

VERIF = os.path.dirname(os.path.abspath(__file__))
REPO = os.environ.get('FGGS_REPO', '/repo')
VENV_PY = '/venv/bin/python'
EXIT_OK, EXIT_VIOLATION, EXIT_HARNESS = 0, 1, 3


def load_known(pid):
    try:
        d = json.load(open(os.path.join(VERIF, 'known_findings.json')))
    except FileNotFoundError:
        return []
    return [f for f in d.get('findings', []) if f['property'] == pid and f.get('status') == 'known']


def match_known(known, viol):
    """a violation matches a finding if the signature's key/values are all
    present (and equal) in the violation's feature dictionary"""
    feats = viol.get('features', {})
    for k in known:
        sig = k['signature']
        if all(feats.get(a) == b for a, b in sig.items()):
            return k
    return None


class Functions:
    """record which /repo/fggs functions are executed (sampled with sys.setprofile)"""

    def __init__(self):
        self.names = set()
        self.prefix = os.path.realpath(REPO) + os.sep

    def __enter__(self):
        def prof(frame, event, arg):
            if event == 'call':
                fn = frame.f_code.co_filename
                if fn.startswith(self.prefix) or 'torch_semiring_einsum' in fn:
                    mod = os.path.splitext(os.path.basename(fn))[0]
                    q = getattr(frame.f_code, 'co_qualname', frame.f_code.co_name)
                    if '<' not in q:
                        self.names.add(('tse.' if 'torch_semiring_einsum' in fn else 'fggs.') + mod + '.' + q)
        sys.setprofile(prof)
        return self

    def __exit__(self, *a):
        sys.setprofile(None)


def _worker(args):
    modname, fn, shard, nshards, tier, seed = args
    sys.setrecursionlimit(10000)
    mod = __import__(modname, fromlist=['x'])
    t0 = time.time()
    try:
        res = getattr(mod, fn)(shard, nshards, tier, seed)
    except BaseException as e:       # noqa
        return {'error': f'{type(e).__name__}: {e}\n{traceback.format_exc()}', 'shard': shard}
    res['wall'] = time.time() - t0
    res['shard'] = shard
    return res


def run_sharded(modname, fn, tier, seed, nshards=None):
    """run `fn(shard, nshards, tier, seed)` of module `modname` in parallel;
    each call returns a dict (see Collector.result)."""
    n = nshards or min(16, os.cpu_count() or 1)
    if os.environ.get('VERIF_SERIAL'):
        return [_worker((modname, fn, i, n, tier, seed)) for i in range(n)]
    ctx = mp.get_context('fork')
    with ctx.Pool(n) as pool:
        return pool.map(_worker, [(modname, fn, i, n, tier, seed) for i in range(n)], chunksize=1)


class Collector:
    """per-shard accumulation of what was covered"""

    def __init__(self):
        self.evaluations = 0
        self.nontrivial = set()
        self.violations = []      # dicts: {'kind','features','replay':{...}}
        self.inconclusive = []
        self.unmodelled = []
        self.samples = []
        self.functions = set()
        self.extra = {}
        self.checks = 0           # oracle comparisons made on explored paths
        self.checks_passed = 0

    def check(self, ok):
        self.checks += 1
        if ok:
            self.checks_passed += 1

    def case(self, key, nontrivial=True, sample=None):
        self.evaluations += 1
        if nontrivial:
            self.nontrivial.add(key)
        if sample is not None and len(self.samples) < 4:
            self.samples.append(sample)

    def violation(self, kind, features, replay, note=''):
        if features.get('exception') in ('Inconclusive', 'PathLimit'):
            # an engine verdict that travelled as an exception (solver `unknown` on a branch, path budget): not a finding about the code under test
            self.inconclusive.append({'label': kind, 'why': note[:300]})
            return
        if len(self.violations) < 200:
            self.violations.append({'kind': kind, 'features': features, 'replay': replay, 'note': note})

    def result(self, stats=None):
        r = dict(evaluations=self.evaluations, nontrivial=sorted(map(str, self.nontrivial))[:100000],
                 violations=self.violations, inconclusive=self.inconclusive[:50],
                 unmodelled=self.unmodelled[:50], samples=self.samples,
                 functions=sorted(self.functions), extra=self.extra,
                 checks=self.checks, checks_passed=self.checks_passed)
        if stats is not None:
            r['stats'] = stats.as_dict()
            r['smt_samples'] = stats.samples[:2]
        return r


def _pool_worker(modname, shard, nshards, tier, seed, start, q, hb, profile_first):
    import symx
    sys.setrecursionlimit(10000)
    try:
        mod = __import__(modname, fromlist=['x'])
        cs = mod.cases(tier, seed)
        mine = cs[shard::nshards]
        runi = getattr(mod, 'run_indexed', None) or (lambda col, case, k: mod.run_case(col, case))
        for pos in range(start, len(mine)):
            hb[2 * shard] = pos
            hb[2 * shard + 1] = time.time()
            col = Collector()
            symx.STATS.__init__()
            if pos < profile_first:
                with Functions() as fns:
                    runi(col, mine[pos], pos)
                col.functions |= fns.names
            else:
                runi(col, mine[pos], pos)
            q.put(('part', shard, pos, col.result(symx.STATS)))
        hb[2 * shard] = -1
        q.put(('done', shard, len(mine), None))
    except BaseException as e:      # noqa
        q.put(('error', shard, -1, f'{type(e).__name__}: {e}\n{traceback.format_exc()[-2000:]}'))


def run_pool(modname, tier, seed, case_timeout=150, nshards=None, profile_first=3):
    """Run mod.cases(tier, seed) through mod.run_case in `nshards` worker processes with a hard wall-clock
    limit per case: a worker stuck in the solver (nlsat can ignore its timeout and interrupts) is killed, the
    case is recorded as inconclusive and a fresh worker resumes with the next case.  Returns the list of
    per-case result dicts (as from Collector.result)."""
    n = nshards or min(16, os.cpu_count() or 1)
    ctx = mp.get_context('fork')
    q = ctx.Queue()
    hb = ctx.Array('d', 2 * n, lock=False)
    procs = {}

    def start(shard, pos):
        hb[2 * shard] = pos
        hb[2 * shard + 1] = time.time()
        p = ctx.Process(target=_pool_worker, args=(modname, shard, n, tier, seed, pos, q, hb, profile_first))
        p.daemon = True
        p.start()
        procs[shard] = p
    for i in range(n):
        start(i, 0)
    results = []
    done = set()
    import queue as _q
    while len(done) < n:
        try:
            kind, shard, pos, payload = q.get(timeout=1.0)
            if kind == 'part':
                results.append(payload)
            elif kind == 'done':
                done.add(shard)
            else:
                results.append({'error': payload, 'shard': shard})
                done.add(shard)
            continue
        except _q.Empty:
            pass
        now = time.time()
        for shard, p in list(procs.items()):
            if shard in done:
                continue
            pos = int(hb[2 * shard])
            if pos >= 0 and now - hb[2 * shard + 1] > case_timeout:
                p.kill()
                p.join()
                results.append(dict(evaluations=1, nontrivial=[], violations=[], unmodelled=[], samples=[], functions=[], extra={},
                                    checks=0, checks_passed=0,
                                    inconclusive=[{'label': f'{modname} shard {shard} case {pos}', 'why': f'hard timeout {case_timeout}s (solver did not return)'}]))
                start(shard, pos + 1)
            elif not p.is_alive() and pos >= 0 and q.empty():
                # died without reporting (e.g. killed by the OOM killer)
                time.sleep(0.5)
                if q.empty() and shard not in done:
                    results.append({'error': f'worker for shard {shard} died at case {pos}', 'shard': shard})
                    done.add(shard)
    for p in procs.values():
        if p.is_alive():
            p.join(timeout=5)
    return results


def guarded(fn, col, timeout_s, label):
    """run fn(child_collector) in a forked child with a hard wall-clock limit (z3's nlsat can ignore both
    its timeout and interrupts); the child's findings are merged into col, a kill is recorded as inconclusive"""
    import pickle
    import signal
    import symx
    r, w = os.pipe()
    pid = os.fork()
    if pid == 0:
        code = 0
        try:
            os.close(r)
            c = Collector()
            symx.STATS.__init__()
            fn(c)
            data = pickle.dumps((c.result(symx.STATS), None))
        except BaseException as e:      # noqa
            data = pickle.dumps((None, f'{type(e).__name__}: {e}\n{traceback.format_exc()[-1500:]}'))
        try:
            with os.fdopen(w, 'wb') as f:
                f.write(data)
        finally:
            os._exit(code)
    os.close(w)
    import select
    buf = b''
    deadline = time.time() + timeout_s
    f = os.fdopen(r, 'rb', buffering=0)
    killed = False
    while True:
        left = deadline - time.time()
        if left <= 0:
            killed = True
            break
        rl, _, _ = select.select([f], [], [], min(left, 1.0))
        if rl:
            chunk = f.read(1 << 16)
            if not chunk:
                break
            buf += chunk
    f.close()
    if killed:
        try:
            os.kill(pid, signal.SIGKILL)
        except ProcessLookupError:
            pass
    os.waitpid(pid, 0)
    if killed or not buf:
        col.inconclusive.append({'label': label, 'why': f'hard timeout {timeout_s}s' if killed else 'child died'})
        return False
    res, err = pickle.loads(buf)
    if err:
        raise RuntimeError('guarded child failed: ' + err)
    col.evaluations += res['evaluations']
    col.nontrivial.update(res['nontrivial'])
    col.violations.extend(res['violations'])
    col.inconclusive.extend(res['inconclusive'])
    col.unmodelled.extend(res['unmodelled'])
    col.samples.extend(res['samples'][: max(0, 4 - len(col.samples))])
    col.checks += res['checks']
    col.checks_passed += res['checks_passed']
    st = res.get('stats', {})
    for k in ('paths', 'queries', 'obligations', 'discharged', 'inconclusive', 'unmodelled', 'xcheck_agree', 'xcheck_unknown', 'xcheck_disagree'):
        setattr(symx.STATS, k, getattr(symx.STATS, k) + int(st.get(k, 0)))
    symx.STATS.solver_s += st.get('solver_time_s', 0)
    symx.STATS.samples.extend(res.get('smt_samples', [])[: max(0, 3 - len(symx.STATS.samples))])
    return True


def merge(results):
    out = dict(evaluations=0, nontrivial=set(), violations=[], inconclusive=[], unmodelled=[],
               samples=[], functions=set(), errors=[], stats={}, smt_samples=[], extra={},
               checks=0, checks_passed=0)
    for r in results:
        if 'error' in r:
            out['errors'].append(r['error'])
            continue
        out['evaluations'] += r['evaluations']
        out['checks'] += r.get('checks', 0)
        out['checks_passed'] += r.get('checks_passed', 0)
        out['nontrivial'].update(r['nontrivial'])
        out['violations'].extend(r['violations'])
        out['inconclusive'].extend(r['inconclusive'])
        out['unmodelled'].extend(r['unmodelled'])
        out['samples'].extend(r['samples'][:2])
        out['functions'].update(r['functions'])
        for k, v in r.get('stats', {}).items():
            out['stats'][k] = round(out['stats'].get(k, 0) + v, 3)
        out['smt_samples'].extend(r.get('smt_samples', [])[:1])
        for k, v in r.get('extra', {}).items():
            if isinstance(v, (int, float)):
                out['extra'][k] = out['extra'].get(k, 0) + v
            elif isinstance(v, list):
                out['extra'].setdefault(k, []).extend(v)
            else:
                out['extra'][k] = v
    return out


def write_replay(pid, payload):
    d = os.path.join(VERIF, 'replays')
    os.makedirs(d, exist_ok=True)
    blob = json.dumps(payload, sort_keys=True, default=str)
    h = hashlib.sha1(blob.encode()).hexdigest()[:10]
    path = os.path.join(d, f'{pid}-{h}.json')
    with open(path, 'w') as f:
        f.write(blob)
    return path


def replay(pid, path, timeout=300):
    """run the replayer under the real interpreter with real torch.
    returns (reproduced: bool|None, output)"""
    script = os.path.join(VERIF, 'replay', f'{pid.lower()}.py')
    env = dict(os.environ)
    env['PYTHONPATH'] = REPO
    env['PYTHONDONTWRITEBYTECODE'] = '1'
    try:
        p = subprocess.run([VENV_PY, '-B', script, path], capture_output=True, text=True, timeout=timeout,
                           env=env, cwd=REPO)
    except subprocess.TimeoutExpired:
        return None, 'replay timeout'
    out = (p.stdout + p.stderr)[-3000:]
    if p.returncode == 10:
        return True, out
    if p.returncode == 11:
        return False, out
    return None, out


def finish(pid, tier, seed, level, merged, t0, *, rule, explanation, bounds, assumptions,
           stubs=(), regimes=(), exhaustive=False, extra_cov=None, technique='', allowed_unmodelled=()):
    """replay + known-finding triage + evidence + exit code"""
    known = load_known(pid)
    lines = []
    code = EXIT_OK
    confirmed = 0
    nonrepro = []
    seen_sig = set()
    replays_done = 0
    # Violations are grouped by (kind, features).  Groups matching a listed known finding are
    # confirmed by replaying a few representatives per finding; every other group is replayed.
    groups = {}
    for v in merged['violations']:
        key = json.dumps([v['kind'], v['features']], sort_keys=True, default=str)
        groups.setdefault(key, []).append(v)
    by_known = {}
    unmatched = []
    for key, vs in groups.items():
        k = match_known(known, vs[0])
        if k is not None:
            by_known.setdefault(k['id'], (k, []))[1].append(vs)
        else:
            unmatched.append(vs)

    def try_replay(vs, n=3):
        nonlocal replays_done
        ok, out, path = None, '', None
        for cand in vs[:n]:
            path = write_replay(pid, {'property': pid, 'kind': cand['kind'], 'features': cand['features'],
                                      'replay': cand['replay'], 'note': cand.get('note', '')})
            ok, out = replay(pid, path)
            replays_done += 1
            if ok:
                break
        return ok, out, path
    for kid, (k, gl) in by_known.items():
        reps = [g[0] for g in gl[:4]]
        ok, out, path = try_replay(reps, n=4)
        if ok:
            confirmed += 1
            seen_sig.add(kid)
            lines.append(f"KNOWN-FINDING: property={pid} {k['what']}")
        else:
            nonrepro.append({'kind': reps[0]['kind'], 'features': reps[0]['features'], 'replay_output': out[-600:], 'path': path,
                             'note': 'listed known finding no longer reproduces'})
    unmatched.sort(key=lambda vs: json.dumps(vs[0]['features'], sort_keys=True, default=str))
    for vs in unmatched[:30]:
        ok, out, path = try_replay(vs)
        v = vs[0]
        if ok:
            confirmed += 1
            lines.append(f'VIOLATION property={pid} replay={path}')
            code = EXIT_VIOLATION
        else:
            nonrepro.append({'kind': v['kind'], 'features': v['features'], 'replay_output': out[-600:], 'path': path})
    if merged['errors']:
        code = max(code, EXIT_HARNESS) if code != EXIT_VIOLATION else code
    if nonrepro and code == EXIT_OK:
        code = EXIT_HARNESS
    if merged['inconclusive'] and code == EXIT_OK:
        code = EXIT_HARNESS
    # A case the torch model has no reading for is not-applicable, never a pass.  On the tree the checks were built against no case is
    # unmodelled (apart from the kinds a check declares); if the code under test starts using something the model lacks, the run says so
    # instead of reporting that the property held on what is left.
    unexpected_unmodelled = [u for u in merged['unmodelled'] if not any(a in str(u.get('why', '')) for a in allowed_unmodelled)]
    if unexpected_unmodelled and code == EXIT_OK:
        code = EXIT_HARNESS
    st = merged['stats']
    cov = {
        'evaluations': merged['evaluations'],
        'distinct_nontrivial': len(merged['nontrivial']),
        'rule': rule,
        'samples': (merged['samples'][:4] + merged['smt_samples'][:2]) or ['(none)'],
        'explanation': explanation,
        'obligations': int(st.get('obligations', 0)) + merged['checks'],
        'discharged': int(st.get('discharged', 0)) + merged['checks_passed'],
        'solver_obligations': int(st.get('obligations', 0)),
        'solver_discharged': int(st.get('discharged', 0)),
        'path_oracle_checks': merged['checks'],
        'inconclusive': len(merged['inconclusive']),
        'unmodelled_cases': len(merged['unmodelled']),
        'unmodelled_unexpected': len(unexpected_unmodelled),
        'unmodelled_samples': merged['unmodelled'][:5],
        'paths': int(st.get('paths', 0)),
        'solver_queries': int(st.get('queries', 0)),
        'solver_time_s': st.get('solver_time_s', 0),
        'second_solver': {'engine': 'cvc5 (python wheel)', 'obligations_rechecked': int(st.get('xcheck_agree', 0) + st.get('xcheck_unknown', 0) + st.get('xcheck_disagree', 0)),
                          'agree': int(st.get('xcheck_agree', 0)), 'no_verdict': int(st.get('xcheck_unknown', 0)), 'disagree': int(st.get('xcheck_disagree', 0))},
        'functions_encoded': sorted(merged['functions']),
        'bounds': bounds,
        'stubs': list(stubs),
        'regimes': list(regimes),
        'exhaustive': bool(exhaustive),
        'traces_validated_against_impl': replays_done,
        'violations_confirmed_by_replay': confirmed,
        'counterexamples_not_reproduced': nonrepro[:5],
        'known_findings_matched': sorted(seen_sig),
        'technique': technique,
        'harness_errors': merged['errors'][:3],
    }
    if extra_cov:
        cov.update(extra_cov)
    cov.update({k: v for k, v in merged['extra'].items() if k not in cov})
    ev = {
        'property_id': pid, 'tier': tier, 'seed': seed, 'level': level, 'coverage': cov,
        'assumptions': list(assumptions), 'wall_s': round(time.time() - t0, 2),
        'violations': sum(1 for l in lines if l.startswith('VIOLATION')),
    }
    # evidence/<id>.json describes runs against /repo itself; a run pointed at another tree (FGGS_REPO, used by the seeded-change
    # driver) leaves it alone and writes under scratch/
    evdir = os.path.join(VERIF, 'evidence') if os.path.realpath(REPO) == '/repo' else os.path.join(VERIF, 'scratch', 'evidence_other_tree')
    os.makedirs(evdir, exist_ok=True)
    with open(os.path.join(evdir, f'{pid}.json'), 'w') as f:
        json.dump(ev, f, indent=1, default=str)
    for l in lines:
        print(l)
    if merged['errors']:
        print('HARNESS-ERROR:', merged['errors'][0][:2000], file=sys.stderr)
    if nonrepro:
        print(f'HARNESS-ERROR: {len(nonrepro)} counterexample(s) did not reproduce on the real code: '
              f'{json.dumps(nonrepro[0], default=str)[:1500]}', file=sys.stderr)
    if merged['inconclusive']:
        print(f"INCONCLUSIVE: {len(merged['inconclusive'])} obligations: {merged['inconclusive'][:2]}", file=sys.stderr)
    if unexpected_unmodelled:
        print(f"UNMODELLED: {len(unexpected_unmodelled)} case(s) use something the torch model has no reading for (not decided, exit 3): {unexpected_unmodelled[:2]}", file=sys.stderr)
    print(f"{pid} {tier}: cases={merged['evaluations']} distinct={len(merged['nontrivial'])} "
          f"obligations={cov['obligations']} discharged={cov['discharged']} paths={cov['paths']} "
          f"confirmed_violations={confirmed} known={len(seen_sig)} wall={ev['wall_s']}s exit={code}")
    return code
