# probe: replay-forking engine cost on scc n=4 (65536 paths) sampled: measure per-path cost
import sys, time
sys.path[:0]=['/verif/design_probes/stub','/repo']
import z3
from fggs.utils import scc
class Stop(BaseException): pass
class Eng:
    def __init__(s): s.solver=z3.Solver(); s.work=[[]]; s.paths=0; s.checks=0
    def run(s,f):
        while s.work:
            s.prefix=s.work.pop(); s.pos=0; s.pc=[]
            f(s); s.paths+=1
    def branch(s,c):
        if s.pos<len(s.prefix):
            d=s.prefix[s.pos]
        else:
            # feasibility of both
            s.solver.push(); s.solver.add(*s.pc); 
            s.solver.push(); s.solver.add(c); t=s.solver.check()==z3.sat; s.solver.pop()
            s.solver.push(); s.solver.add(z3.Not(c)); f_=s.solver.check()==z3.sat; s.solver.pop()
            s.solver.pop(); s.checks+=2
            if t and f_: s.work.append(s.prefix[:s.pos]+[False]); d=True
            else: d=t
            s.prefix=s.prefix[:s.pos]+[d]
        s.pos+=1; s.pc.append(c if d else z3.Not(c)); return d
class SB:
    def __init__(s,e,x): s.e=e;s.x=x
    def __bool__(s): return s.e.branch(s.x)
n=int(sys.argv[1])
adjv=[z3.Bool(f'e{i}') for i in range(n*n)]
def body(e):
    adj=[SB(e,v) for v in adjv]
    g={i:{j:None for j in range(n) if adj[i*n+j]} for i in range(n)}
    comps=scc(g)
    assert sum(len(c) for c in comps)==n
e=Eng(); t0=time.time(); e.run(body); t=time.time()-t0
print(n, e.paths, 'paths', e.checks,'checks', round(t,2),'s', round(1000*t/e.paths,3),'ms/path')
