import z3, time
# LogSemiring.einsum in exp-representation: result = (sum_t (prod_t / m)) * m, m = clip(max_t prod_t)
def run(n, allow_zero=True):
    s=z3.Solver()
    A=[[z3.Real(f'a{i}{j}') for j in range(n)] for i in range(n)]
    B=[[z3.Real(f'b{i}{j}') for j in range(n)] for i in range(n)]
    EPS=z3.Real('EPS'); s.add(EPS>0)
    for r in A+B:
        for v in r: s.add(v>=0 if allow_zero else v>0)
    bad=[]
    for i in range(n):
        for k in range(n):
            terms=[A[i][j]*B[j][k] for j in range(n)]
            m=terms[0]
            for t in terms[1:]: m=z3.If(t>m,t,m)
            m=z3.If(m==0,EPS,m)   # clip -inf to min float
            res=z3.Sum([t/m for t in terms])*m
            bad.append(res!=z3.Sum(terms))
    s.add(z3.Or(*bad))
    t0=time.time(); r=s.check(); return r, round(time.time()-t0,3)
for n in (2,3,4): print(n, *run(n))
