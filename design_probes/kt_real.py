# probe: Kleene iterate <= any pre-fixed point (nonlinear real arithmetic), quadratic systems
import z3, time
def scalar(k):
    a,b,y=z3.Reals('a b y'); s=z3.Solver(); s.set('timeout',120000)
    s.add(a>=0,b>=0,y>=0, a*y*y+b<=y)
    x=z3.RealVal(0)
    for _ in range(k): x=a*x*x+b
    s.add(x>y); t0=time.time(); r=s.check(); return str(r), round(time.time()-t0,2)
def two(k):
    # x = p*x*y + (1-p) ; y = p*(x*x+y*y)  (example12p shape), weights p,q symbolic
    p,q,X,Y=z3.Reals('p q X Y'); s=z3.Solver(); s.set('timeout',120000)
    s.add(p>=0,q>=0,X>=0,Y>=0, 2*p*X*Y+q<=X, p*(X*X+Y*Y)<=Y)
    x=y=z3.RealVal(0)
    for _ in range(k): x,y = 2*p*x*y+q, p*(x*x+y*y)
    s.add(z3.Or(x>X,y>Y)); t0=time.time(); r=s.check(); return str(r), round(time.time()-t0,2)
for k in (1,2,3,4): print('scalar',k,scalar(k))
for k in (1,2,3): print('two',k,two(k))
