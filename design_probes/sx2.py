# lean IEEE-level tags for a nonneg carrier: value v (>=0), inf flag, nan flag (transient)
import z3, time, sys
T=z3.BoolVal(True); F=z3.BoolVal(False)
class X:
    def __init__(s,v,i,n=F): s.v=v;s.i=i;s.n=n
def var(name,S):
    v=z3.Real(name); i=z3.Bool(name+'_i'); S.add(v>=0); return X(v,i)
def zero(a): return z3.And(z3.Not(a.i), z3.Not(a.n), a.v==0)
def mul(a,b):  # IEEE mul on nonneg extended reals
    n=z3.Or(a.n,b.n, z3.And(a.i,zero(b)), z3.And(b.i,zero(a)))
    i=z3.And(z3.Not(n), z3.Or(a.i,b.i))
    return X(a.v*b.v, i, n)
def add(a,b):
    n=z3.Or(a.n,b.n); i=z3.And(z3.Not(n), z3.Or(a.i,b.i)); return X(a.v+b.v,i,n)
def ntn(a):   # nan_to_num(nan=0, posinf=inf)
    return X(z3.If(z3.Or(a.n,a.i),0,a.v), a.i, F)
def eq(a,b): return z3.And(z3.Not(a.n),z3.Not(b.n), a.i==b.i, z3.Or(a.i, a.v==b.v))
def run(n, canon):
    S=z3.Solver(); S.set('timeout',300000)
    A=[[var(f'a{i}{j}',S) for j in range(n)] for i in range(n)]
    B=[[var(f'b{i}{j}',S) for j in range(n)] for i in range(n)]
    c=[var(f'c{i}',S) for i in range(n)]
    if canon:
        for e in [x for r in A+B for x in r]+c: S.add(z3.Implies(e.i, e.v==0))
    bad=[]
    for i in range(n):
        acc=None; acc2=None
        for j in range(n):
            for k in range(n):
                t=ntn(mul(ntn(mul(A[i][j],B[j][k])),c[k])); acc=t if acc is None else add(acc,t)
        for k in range(n):
            for j in range(n):
                t=ntn(mul(A[i][j],ntn(mul(B[j][k],c[k])))); acc2=t if acc2 is None else add(acc2,t)
        bad.append(z3.Not(eq(acc,acc2)))
    S.add(z3.Or(*bad)); t0=time.time(); r=S.check(); return str(r), round(time.time()-t0,2)
for n in (2,3):
    for canon in (True,):
        print(n,canon,run(n,canon)); sys.stdout.flush()
