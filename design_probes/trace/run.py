import sys, collections, atexit, json, os
sys.path.insert(0,'/repo')
import torch, torch.overrides
calls=collections.Counter()
class Mode(torch.overrides.TorchFunctionMode):
    def __torch_function__(self, func, types, args=(), kwargs=None):
        f=sys._getframe(1)
        # find nearest non-torch frame
        while f is not None and ('/torch/' in f.f_code.co_filename and 'torch_semiring_einsum' not in f.f_code.co_filename):
            f=f.f_back
        fn=f.f_code.co_filename if f else '?'
        if '/repo/fggs/' in fn or 'torch_semiring_einsum' in fn:
            who='fggs' if '/repo/fggs/' in fn else 'tse'
            name=getattr(func,'__qualname__',None) or getattr(func,'__name__',str(func))
            calls[(who,name)]+=1
        return func(*args, **(kwargs or {}))
m=Mode(); m.__enter__()
import unittest
os.chdir('/repo')
suite=unittest.defaultTestLoader.discover('test', top_level_dir='/repo')
unittest.TextTestRunner(verbosity=0).run(suite)
m.__exit__(None,None,None)
out=collections.defaultdict(dict)
for (who,name),c in calls.items(): out[who][name]=c
json.dump(out, open('/verif/design_probes/trace/calls.json','w'), indent=1, sort_keys=True)
for who in out: print(who, len(out[who]), sorted(out[who]))
