# probe: Real-semiring Gauss-Jordan (Semiring.solve_thunks) on n x n with tagged extended nonneg reals,
# checked against the Knaster-Tarski characterisation. Semiring-level ops (mul with 0*inf=0, add, star).
import z3, time, sys, itertools
class E:  # extended nonneg real: inf flag + value (value meaningful iff not inf)
    def __init__(s,v,i): s.v=v; s.i=i
def var(n,S):
    v=z3.Real(n); i=z3.Bool(n+'_i'); S.add(v>=0); return E(v,i)
def const(x): return E(z3.RealVal(x), z3.BoolVal(False))
INF=E(z3.RealVal(0), z3.BoolVal(True))
def isz(a): return z3.And(z3.Not(a.i), a.v==0)
def mul(a,b):
    z=z3.Or(isz(a),isz(b))
    return E(z3.If(z,0,a.v*b.v), z3.And(z3.Not(z), z3.Or(a.i,b.i)))
def add(a,b): return E(a.v+b.v, z3.Or(a.i,b.i))
def star(a):
    big=z3.Or(a.i, a.v>=1)
    return E(z3.If(big,0,1/(1-a.v)), big)
def le(a,b): return z3.Or(b.i, z3.And(z3.Not(a.i), a.v<=b.v))
def eq(a,b): return z3.And(a.i==b.i, z3.Or(a.i, a.v==b.v))
def gj(A,x):
    n=len(A); A=[r[:] for r in A]; x=x[:]
    for k in range(n):
        s=star(A[k][k])
        for i in range(n): A[i][k]=mul(A[i][k],s)
        tmp=[[mul(A[i][k],A[k][j]) for j in range(k+1,n)] for i in range(n)]
        for i in range(n):
            for jj,j in enumerate(range(k+1,n)): A[i][j]=add(A[i][j], tmp[i][jj])
        xk=x[k]
        for i in range(n): x[i]=add(x[i], mul(A[i][k],xk))
    return x
def run(n, profile=None):
    S=z3.Solver()
    A=[[var(f'a{i}{j}',S) for j in range(n)] for i in range(n)]; b=[var(f'b{i}',S) for i in range(n)]
    y=[var(f'y{i}',S) for i in range(n)]
    if profile is not None:
        vs=[e for r in A for e in r]+b
        for e,c in zip(vs,profile):
            if c=='Z': S.add(z3.Not(e.i), e.v==0)
            elif c=='P': S.add(z3.Not(e.i), e.v>0)
            else: S.add(e.i)
    r=gj(A,b)
    def G(z): return [ (lambda acc: acc)(__import__('functools').reduce(add,[mul(A[i][j],z[j]) for j in range(n)], b[i])) for i in range(n)]
    Gr=G(r); Gy=G(y)
    notfix=z3.Or(*[z3.Not(eq(Gr[i],r[i])) for i in range(n)])
    notleast=z3.And(z3.And(*[le(Gy[i],y[i]) for i in range(n)]), z3.Or(*[z3.Not(le(r[i],y[i])) for i in range(n)]))
    S.add(z3.Or(notfix,notleast))
    S.set('timeout', 120000)
    t0=time.time(); res=S.check(); return str(res), round(time.time()-t0,2)
print('n=1 tagged', run(1))
print('n=2 tagged', run(2))
t0=time.time(); cnt=0; worst=0; bad=0
for prof in itertools.product('ZPI', repeat=6):
    r,t=run(2,prof); cnt+=1; worst=max(worst,t)
    if r!='unsat': bad+=1; print(prof,r,t)
print('n=2 profiles', cnt, 'total', round(time.time()-t0,1), 'worst', worst, 'non-unsat', bad)
