from typing import List, Optional, Tuple
import fggs
from fggs.formats import json_to_hrg, hrg_to_json

def _mk(ids: List[Optional[str]], att: List[int], ext: List[int]):
    nodes=[({'label':'T','id':i} if i is not None else {'label':'T'}) for i in ids]
    j={'terminals':{'f':{'type':['T']*len(att)}},'nonterminals':{'S':{'type':['T']*len(ext)}},'start':'S',
       'rules':[{'lhs':'S','rhs':{'nodes':nodes,'edges':[{'label':'f','attachments':list(att),'id':'e'}],'externals':list(ext)}}]}
    return j

def _roundtrip(ids: List[Optional[str]], att: List[int], ext: List[int]) -> bool:
    """
    pre: 1 <= len(ids) <= 3 and len(att) <= 2 and len(ext) <= 2
    pre: all(i is None or len(i) <= 2 for i in ids)
    pre: len(set(i for i in ids if i is not None)) == len([i for i in ids if i is not None])
    pre: all(0 <= a < len(ids) for a in att) and all(0 <= a < len(ids) for a in ext)
    post: _
    """
    j=_mk(ids,att,ext)
    g=json_to_hrg(j)
    j2=hrg_to_json(g)
    r=j2['rules'][0]['rhs']
    # position map: node k in j  ->  position in j2 ; compare attachments via ids/labels
    g2=json_to_hrg(j2)
    r1=g.all_rules()[0].rhs; r2=g2.all_rules()[0].rhs
    # explicit ids preserved
    if sorted(i for i in ids if i is not None) != sorted(n.id for n in r2.nodes() if n.persist_id): return False
    # ext/attachments: explicit-id nodes must match by id
    e1=[n.id if n.persist_id else None for n in r1.ext]; e2=[n.id if n.persist_id else None for n in r2.ext]
    if e1!=e2: return False
    a1=[n.id if n.persist_id else None for n in list(r1.edges())[0].nodes]; a2=[n.id if n.persist_id else None for n in list(r2.edges())[0].nodes]
    return a1==a2

def _reject(ids: List[Optional[str]], att: List[int]) -> bool:
    """
    pre: 1 <= len(ids) <= 2 and len(att) == 1
    pre: all(i is None for i in ids)
    pre: not (0 <= att[0] < len(ids))
    post: _
    """
    try:
        json_to_hrg(_mk(ids,att,[]))
    except ValueError:
        return True
    return False
