class Equation: pass
def compile_equation(s): pass
from . import utils
