# minimal stub so that fggs imports under python3-vt (probe only)
class Tensor: pass
class LongTensor(Tensor): pass
class Size(tuple): pass
class dtype: pass
bool=dtype(); long=dtype(); int=dtype(); float32=dtype(); float64=dtype()
class autograd:
    class Function: pass
def get_default_dtype(): return float32
def __getattr__(name):
    def f(*a, **k): raise NotImplementedError(name)
    f.__name__ = name
    return f
