from typing import List, Tuple
import fggs
from fggs.fggs import NodeLabel, EdgeLabel, Graph, Node, Edge
from fggs.utils import unique_label_name

def _fresh(name: str, names: List[str]) -> str:
    """
    pre: len(names) <= 3 and len(name) <= 3 and all(len(n) <= 4 for n in names)
    post: _ not in names
    """
    labs = [NodeLabel(n) for n in names]
    return unique_label_name(name, labs)

def _fresh_bad(name: str, names: List[str]) -> str:
    """
    pre: len(names) <= 3 and len(name) <= 3 and all(len(n) <= 4 for n in names)
    post: _ == name
    """
    labs = [NodeLabel(n) for n in names]
    return unique_label_name(name, labs)
