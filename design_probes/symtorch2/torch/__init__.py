# PROBE 2: bool/int symbolic tensors + forking hook, enough for BoolSemiring fixed-point
import itertools, builtins, operator
from functools import reduce
import z3
ENGINE=None   # set by harness; must provide .branch(z3 Bool) -> bool

class dtype:
    def __init__(s,name,isfloat,bits): s.name=name; s.is_floating_point=isfloat; s.bits=bits
    def __repr__(s): return 'torch.'+s.name
float32=dtype('float32',True,32); float64=dtype('float64',True,64); bool=dtype('bool',False,8)
int64=long=dtype('int64',False,64); int32=int=dtype('int32',False,32); float=float32
def get_default_dtype(): return float32
class finfo:
    def __init__(s,d):
        if not d.is_floating_point: raise TypeError
        s.bits=d.bits
class iinfo:
    def __init__(s,d):
        if d.is_floating_point or d is bool: raise TypeError
        s.bits=d.bits
class device:
    def __init__(s,t='cpu'): s.type=t; s.index=None
class cuda:
    memory_reserved=staticmethod(lambda *a:0); mem_get_info=staticmethod(lambda *a:(0,0)); memory_allocated=staticmethod(lambda *a:0)
class Size(tuple):
    def __new__(cls, it=()): return tuple.__new__(cls, it)
    def numel(s): return reduce(operator.mul, s, 1)
    def __add__(s,o): return Size(tuple(s)+tuple(o))
    def __getitem__(s,i):
        r=tuple.__getitem__(s,i); return Size(r) if isinstance(i,slice) else r
def _contig(size):
    st=[];acc=1
    for n in reversed(size): st.append(acc); acc*=builtins.max(n,1)
    return tuple(reversed(st))
# ---- scalar helpers (python bool/int or z3)
def isz(x): return isinstance(x, z3.ExprRef)
def b_and(a,b):
    if a is False or b is False: return False
    if a is True: return b
    if b is True: return a
    return z3.And(a,b)
def b_or(a,b):
    if a is True or b is True: return True
    if a is False: return b
    if b is False: return a
    return z3.Or(a,b)
def b_not(a): return (not a) if not isz(a) else z3.Not(a)
def b_eq(a,b):
    if not isz(a) and not isz(b): return a==b
    if isinstance(a,builtins.bool): return b if a else z3.Not(b)
    if isinstance(b,builtins.bool): return a if b else z3.Not(a)
    return a==b
def to_i(a): return (1 if a else 0) if not isz(a) else (z3.If(a,1,0) if z3.is_bool(a) else a)
class SymScalarBool:
    def __init__(s,x): s.x=x
    def __bool__(s): return ENGINE.branch(s.x)
def as_pybool(x):
    if not isz(x): return builtins.bool(x)
    x=z3.simplify(x)
    if z3.is_true(x): return True
    if z3.is_false(x): return False
    return ENGINE.branch(x)

class Tensor:
    def __init__(s, storage, size, stride, offset, dt):
        s.storage=storage; s._size=Size(size); s._stride=tuple(stride); s._offset=offset; s.dtype=dt
        s.requires_grad=False; s.device=device()
    def size(s,d=None): return s._size if d is None else s._size[d]
    shape=property(lambda s:s._size)
    def stride(s): return s._stride
    def storage_offset(s): return s._offset
    def dim(s): return len(s._size)
    ndim=property(dim)
    def numel(s): return s._size.numel()
    def _idx(s): return itertools.product(*[range(n) for n in s._size])
    def _loc(s,ix): return s._offset+builtins.sum(i*t for i,t in zip(ix,s._stride))
    def _get(s,ix): return s.storage[s._loc(ix)]
    def _set(s,ix,v): s.storage[s._loc(ix)]=v
    def item(s):
        assert s.numel()==1; v=s._get((0,)*s.dim())
        return SymScalarBool(v) if isz(v) and z3.is_bool(v) else v
    def __bool__(s):
        assert s.numel()==1; return as_pybool(s._get((0,)*s.dim()))
    def as_strided(s,size,stride,offset=None): return Tensor(s.storage,size,stride,s._offset if offset is None else offset,s.dtype)
    def expand(s,*size):
        if len(size)==1 and not isinstance(size[0],builtins.int): size=tuple(size[0])
        nd=len(size); pad=nd-s.dim(); osz=(1,)*pad+tuple(s._size); ost=(0,)*pad+s._stride; nsz=[];nst=[]
        for n,o,t in zip(size,osz,ost):
            if n==-1: n=o
            if o==n: nsz.append(n); nst.append(t)
            elif o==1: nsz.append(n); nst.append(0)
            else: raise RuntimeError('expand')
        return Tensor(s.storage,nsz,nst,s._offset,s.dtype)
    def permute(s,*dims):
        if len(dims)==1 and not isinstance(dims[0],builtins.int): dims=tuple(dims[0])
        return Tensor(s.storage,[s._size[d] for d in dims],[s._stride[d] for d in dims],s._offset,s.dtype)
    def unsqueeze(s,d):
        if d<0: d+=s.dim()+1
        sz=list(s._size); st=list(s._stride); sz.insert(d,1); st.insert(d,1); return Tensor(s.storage,sz,st,s._offset,s.dtype)
    def squeeze(s,d=None):
        keep=[i for i,n in enumerate(s._size) if not (n==1 and (d is None or i==d))]
        return Tensor(s.storage,[s._size[i] for i in keep],[s._stride[i] for i in keep],s._offset,s.dtype)
    def is_contiguous(s): return all(n==1 or t==c for n,t,c in zip(s._size,s._stride,_contig(s._size)))
    def clone(s): return Tensor([s._get(ix) for ix in s._idx()],s._size,_contig(s._size),0,s.dtype)
    def view(s,*size):
        if len(size)==1 and not isinstance(size[0],builtins.int): size=tuple(size[0])
        assert s.is_contiguous() or s.numel()<=1, 'probe: view only on contiguous'
        return Tensor(s.storage,size,_contig(size),s._offset,s.dtype)
    def reshape(s,*size):
        if len(size)==1 and not isinstance(size[0],builtins.int): size=tuple(size[0])
        return (s if s.is_contiguous() else s.clone()).view(*size)
    def __getitem__(s,index):
        if not isinstance(index,tuple): index=(index,)
        sz=[];st=[];off=s._offset;d=0
        for i in index:
            if i is None: sz.append(1); st.append(1)
            elif isinstance(i,slice):
                a,b,c=i.indices(s._size[d]); sz.append(builtins.max(0,b-a)); st.append(s._stride[d]); off+=a*s._stride[d]; d+=1
            else: off+=i*s._stride[d]; d+=1
        sz+=s._size[d:]; st+=s._stride[d:]
        return Tensor(s.storage,sz,st,off,s.dtype)
    def repeat(s,*reps):
        sz=[n*r for n,r in zip(s._size,reps)]
        out=Tensor([None]*Size(sz).numel(),sz,_contig(sz),0,s.dtype)
        for ix in out._idx(): out._set(ix,s._get(tuple(i%n for i,n in zip(ix,s._size))))
        return out
    def _bin_(s,o,f):
        if isinstance(o,Tensor):
            o=o.expand(s._size); vals=[f(s._get(ix),o._get(ix)) for ix in s._idx()]
        else: vals=[f(s._get(ix),o) for ix in s._idx()]
        for ix,v in zip(list(s._idx()),vals): s._set(ix,v)
        return s
    def _bin(s,o,f,dt=None):
        if isinstance(o,Tensor):
            sz=Size(builtins.max(a,b) for a,b in itertools.zip_longest(reversed(s._size),reversed(o._size),fillvalue=1))[::-1]
            a=s.expand(sz); b=o.expand(sz); vals=[f(a._get(ix),b._get(ix)) for ix in a._idx()]
        else:
            sz=s._size; vals=[f(s._get(ix),o) for ix in s._idx()]
        return Tensor(vals,sz,_contig(sz),0,dt or s.dtype)
    def mul_(s,o): return s._bin_(o, b_and if s.dtype is bool else (lambda a,b:a*b))
    def add_(s,o): return s._bin_(o, b_or if s.dtype is bool else (lambda a,b:a+b))
    def logical_or_(s,o): return s._bin_(o,b_or)
    def logical_and_(s,o): return s._bin_(o,b_and)
    def copy_(s,o): return s._bin_(o,lambda a,b:b)
    def fill_(s,v): return s._bin_(v,lambda a,b:b)
    def __eq__(s,o): return s._bin(o, b_eq if s.dtype is bool else (lambda a,b:a==b), bool)
    eq=__eq__
    __hash__=object.__hash__
    def gt(s,o): return s._bin(o,lambda a,b:a>b,bool)
    __gt__=gt
    def __invert__(s): return Tensor([b_not(s._get(ix)) for ix in s._idx()],s._size,_contig(s._size),0,bool)
    def all(s): return Tensor([reduce(b_and,[s._get(ix) for ix in s._idx()],True)],(),(),0,bool)
    def equal(s,o):
        if s._size!=o._size: return False
        return as_pybool(reduce(b_and,[b_eq(s._get(ix),o._get(ix)) for ix in s._idx()],True))
    def new_full(s,size,v): return full(size,v,dtype=s.dtype)
    def sum(s,dim=None):
        dims=tuple(range(s.dim())) if dim is None else ((dim,) if isinstance(dim,builtins.int) else tuple(dim))
        keep=[d for d in range(s.dim()) if d not in dims]; osz=[s._size[d] for d in keep]
        out=full(osz,0,dtype=int64 if s.dtype is bool else s.dtype)
        for ix in s._idx():
            oix=tuple(ix[d] for d in keep); out._set(oix,out._get(oix)+to_i(s._get(ix)))
        return out
    def __repr__(s): return f'T{tuple(s._size)}{[str(x) for x in s.clone().storage]}'
def full(size,v,dtype=None):
    size=tuple(size); return Tensor([v]*Size(size).numel(),size,_contig(size),0,dtype or get_default_dtype())
def tensor(data,dtype=None):
    def shape(d): return (len(d),)+shape(d[0]) if isinstance(d,(list,tuple)) else ()
    def flat(d): return [x for e in d for x in flat(e)] if isinstance(d,(list,tuple)) else [d]
    sz=shape(data); vals=flat(data)
    if dtype is None: dtype=bool if vals and isinstance(vals[0],builtins.bool) else (int64 if vals and isinstance(vals[0],builtins.int) else float32)
    return Tensor(vals,sz,_contig(sz),0,dtype)
def as_tensor(x,dtype=None,device=None): return x if isinstance(x,Tensor) else tensor(x,dtype)
def as_strided(t,size,stride): return t.as_strided(size,stride)
def sum(t,dim=None): return t.sum(dim)
def any(t,dim=None): return t.sum(dim).gt(0)
def zeros(size,dtype=None,device=None): return full(tuple(size),False if dtype is bool else 0.,dtype)
def full_like(t,v): return full(t._size,v,t.dtype)
class LongTensor(Tensor): pass
class _Ctx:
    needs_input_grad=()
    def save_for_backward(s,*a): s.saved_tensors=a
class autograd:
    class Function:
        @classmethod
        def apply(cls,*args): return cls.forward(_Ctx(),*args)
def __getattr__(name):
    def f(*a,**k): raise NotImplementedError(name)
    return f
