import sys, time
sys.path[:0]=['/verif/design_probes/symtorch','/repo']
import z3, torch
from fggs.indices import PatternedTensor, PhysicalAxis, SumAxis, productAxis, einsum
from fggs.semirings import RealSemiring
def sym(name, *size):
    n=torch.Size(size).numel()
    return torch.Tensor([z3.Real(f'{name}{i}') for i in range(n)], size, torch._contig(size), 0, torch.float32)
A=sym('a',2,3); B=sym('b',6); 
k2=PhysicalAxis(2);k3=PhysicalAxis(3);k6=PhysicalAxis(6)
# A : physical 2x3 stored as virtual [6,2,3] diag-like pattern ; B: second diagonal of 7x6
tA=PatternedTensor(A,(k2,k3),(productAxis((k2,k3)),k2,k3))
tB=PatternedTensor(B,(k6,),(SumAxis(1,k6,0),k6))
t0=time.time()
r=einsum((tA,tB),("bcd","ab"),"ad",RealSemiring())
print('einsum ran', r.size(), r.physical.size(), time.time()-t0)
# oracle by definition using Axis.index-free own semantics
def dense_A(b,c,d): return A._get((c,d)) if b==3*c+d else 0
def dense_B(a,b): return B._get((b,)) if a==1+b else 0
s=z3.Solver(); bad=[]
for a in range(7):
    for d in range(3):
        orc=z3.Sum([dense_A(b,c,d)*dense_B(a,b) for b in range(6) for c in range(2)])
        pi={}
        ok=all(e.index(pi,v) for e,v in zip(r.vaxes,(a,d)))
        got=r.physical._get(tuple(pi[k] for k in r.paxes)) if ok else r.default
        bad.append(got!=orc)
s.add(z3.Or(*bad)); print(s.check(), time.time()-t0)
