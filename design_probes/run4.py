import sys, time, itertools
sys.path[:0]=['/verif/design_probes/symtorch','/repo']
import z3, torch
from fggs.indices import PatternedTensor, PhysicalAxis, SumAxis, productAxis, unitAxis, ProductAxis
def sym(name, size):
    size=tuple(size); n=torch.Size(size).numel()
    return torch.Tensor([z3.Real(f'{name}{i}') for i in range(n)], size, torch._contig(size), 0, torch.float32)
# independent denotation of the axis language
def ax_numel(e):
    if isinstance(e,PhysicalAxis): return e._numel
    if isinstance(e,ProductAxis):
        n=1
        for f in e.factors: n*=ax_numel(f)
        return n
    return e.before+ax_numel(e.term)+e.after
def ax_map(e, env):   # physical assignment -> virtual index
    if isinstance(e,PhysicalAxis): return env[e]
    if isinstance(e,ProductAxis):
        v=0
        for f in e.factors: v=v*ax_numel(f)+ax_map(f,env)
        return v
    return e.before+ax_map(e.term,env)
def denote(t):
    shape=[ax_numel(e) for e in t.vaxes]
    d={ix:t.default for ix in itertools.product(*[range(n) for n in shape])}
    for pix in itertools.product(*[range(k._numel) for k in t.paxes]):
        env=dict(zip(t.paxes,pix)); vix=tuple(ax_map(e,env) for e in t.vaxes)
        d[vix]=t.physical._get(pix)
    return shape,d
def mk(kind,name,default):
    k2=PhysicalAxis(2);k3=PhysicalAxis(3);k6=PhysicalAxis(6)
    if kind=='dense': return PatternedTensor(sym(name,(6,3)),(k6,k3),(k6,k3),default)
    if kind=='diag': return PatternedTensor(sym(name,(2,3)),(k2,k3),(productAxis((k2,k3)),k3),default)
    if kind=='sum': return PatternedTensor(sym(name,(2,3)),(k2,k3),(SumAxis(1,k2,3),k3),default)
    if kind=='sumdiag': return PatternedTensor(sym(name,(3,)),(k3,),(SumAxis(0,k3,3),k3),default)
    if kind=='bcast': return PatternedTensor(sym(name,(6,)).expand(3,6).permute(1,0) if False else sym(name,(6,)),(k6,),(k6,unitAxis),default).expand(6,3)
kinds=['dense','diag','sum','sumdiag','bcast']
s=z3.Solver(); tot=0; t0=time.time(); nq=0
for ka in kinds:
    for kb in kinds:
        for da,db in ((0,0),(1,0),(2.5,1)):
            a=mk(ka,'a',da); b=mk(kb,'b',db)
            t1=time.time()
            r=a.add(b); m=a.mul(b)
            tot+=time.time()-t1
            sa,dA=denote(a); sb,dB=denote(b)
            for res,op in ((r,lambda x,y:x+y),(m,lambda x,y:x*y)):
                sr,dR=denote(res)
                assert sr==sa==sb
                bad=z3.Or(*[z3.RealVal(dR[ix]) != z3.RealVal(0)+op(dA[ix],dB[ix]) if not isinstance(dR[ix],z3.ExprRef) else dR[ix]!=op(dA[ix],dB[ix]) for ix in dR])
                s.push(); s.add(bad); v=s.check(); s.pop(); nq+=1
                if v!=z3.unsat: print('FAIL',ka,kb,da,db,v)
print('cases',len(kinds)**2*3,'queries',nq,'exec time',round(tot,3),'total',round(time.time()-t0,2))
