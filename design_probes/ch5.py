from typing import List, Optional, Tuple
import fggs, fggs.fggs
from fggs.formats import json_to_hrg, hrg_to_json

_pool: List[int] = []
_ctr = [1000]
def _fake_id(obj):
    if _pool: return _pool.pop()
    _ctr[0]+=1; return _ctr[0]

def _mk(ids, att, ext):
    nodes=[({'label':'T','id':i} if i is not None else {'label':'T'}) for i in ids]
    return {'terminals':{'f':{'type':['T']*len(att)}},'nonterminals':{'S':{'type':['T']*len(ext)}},'start':'S',
       'rules':[{'lhs':'S','rhs':{'nodes':nodes,'edges':[{'label':'f','attachments':list(att),'id':'e'}],'externals':list(ext)}}]}

def _roundtrip(i0: Optional[str], i1: Optional[str], a0: int, a1: int, att0: int, ext0: int) -> bool:
    """
    pre: (i0 is None or len(i0) <= 2) and (i1 is None or len(i1) <= 2)
    pre: i0 is None or i1 is None or i0 != i1
    pre: 0 <= a0 < 120 and 0 <= a1 < 120 and a0 != a1
    pre: 0 <= att0 < 2 and 0 <= ext0 < 2
    post: _
    """
    global _pool
    ids=[i0,i1]; att=[att0]; ext=[ext0]
    _pool=[a1,a0]
    old=fggs.fggs._id
    fggs.fggs._id=_fake_id
    try:
        j=_mk(ids,att,ext)
        g=json_to_hrg(j)
        j2=hrg_to_json(g)
        r2=j2['rules'][0]['rhs']
        rhs=g.all_rules()[0].rhs
        order=sorted(rhs.nodes(), key=lambda v: str(v.id))
        nodes_in=list(rhs.nodes())
        pos={v:i for i,v in enumerate(order)}
        perm=[pos[v] for v in nodes_in]
        if [perm[a] for a in att] != r2['edges'][0]['attachments']: return False
        if [perm[a] for a in ext] != r2['externals']: return False
        for k,i in enumerate(ids):
            if r2['nodes'][perm[k]].get('id') != i: return False
        return True
    finally:
        fggs.fggs._id=old
