import z3, time
def run(n):
    s=z3.Solver()
    A=[[z3.Real(f'a{i}{j}') for j in range(n)] for i in range(n)]
    Bm=[[z3.Real(f'b{i}{j}') for j in range(n)] for i in range(n)]
    c=[z3.Real(f'c{i}') for i in range(n)]
    outs=[];outs2=[]
    for i in range(n):
        outs.append(sum(((A[i][j]*Bm[j][k])*c[k]) for j in range(n) for k in range(n)))
        outs2.append(sum((A[i][j]*(Bm[j][k]*c[k])) for k in range(n) for j in range(n)))
    s.add(z3.Or(*[a!=b for a,b in zip(outs,outs2)]))
    t0=time.time(); r=s.check(); return r, time.time()-t0
for n in (2,3,4,5): print(n,*run(n))
# with max (viterbi style, LRA)
def runv(n):
    s=z3.Solver()
    A=[[z3.Real(f'a{i}{j}') for j in range(n)] for i in range(n)]
    Bm=[[z3.Real(f'b{i}{j}') for j in range(n)] for i in range(n)]
    c=[z3.Real(f'c{i}') for i in range(n)]
    def mx(xs):
        xs=list(xs); m=xs[0]
        for x in xs[1:]: m=z3.If(x>m,x,m)
        return m
    outs=[];outs2=[]
    for i in range(n):
        outs.append(mx(((A[i][j]+Bm[j][k])+c[k]) for j in range(n) for k in range(n)))
        outs2.append(mx(A[i][j]+mx(Bm[j][k]+c[k] for k in range(n)) for j in range(n)))
    s.add(z3.Or(*[a!=b for a,b in zip(outs,outs2)]))
    t0=time.time(); r=s.check(); return r, time.time()-t0
for n in (2,3,4): print('viterbi',n,*runv(n))
