# PROBE ONLY: minimal strided symbolic tensor to run fggs.indices.einsum
import itertools, math, builtins
from functools import reduce
import operator
import z3

class dtype:
    def __init__(s, name, isfloat, bits): s.name=name; s.is_floating_point=isfloat; s.bits=bits
    def __repr__(s): return 'torch.'+s.name
float32=dtype('float32',True,32); float64=dtype('float64',True,64); bool=dtype('bool',False,8)
int64=long=dtype('int64',False,64); int32=int=dtype('int32',False,32)
float=float32; double=float64
_default=[float32]
def get_default_dtype(): return _default[0]
def set_default_dtype(d): _default[0]=d
class finfo:
    def __init__(s,d):
        if not d.is_floating_point: raise TypeError
        s.bits=d.bits
class iinfo:
    def __init__(s,d):
        if d.is_floating_point or d is bool: raise TypeError
        s.bits=d.bits
class device:
    def __init__(s,t='cpu'): s.type=t; s.index=None
class cuda:
    @staticmethod
    def memory_reserved(*a): return 0
    @staticmethod
    def mem_get_info(*a): return (0,0)
    @staticmethod
    def memory_allocated(*a): return 0
class Size(tuple):
    def __new__(cls, it=()): return tuple.__new__(cls, it)
    def numel(s): return reduce(operator.mul, s, 1)
    def __add__(s,o): return Size(tuple(s)+tuple(o))
    def __getitem__(s,i):
        r=tuple.__getitem__(s,i)
        return Size(r) if isinstance(i,slice) else r

def _contig(size):
    st=[];acc=1
    for n in reversed(size):
        st.append(acc); acc*=builtins.max(n,1)
    return tuple(reversed(st))

class Tensor:
    def __init__(s, storage, size, stride, offset, dt):
        s.storage=storage; s._size=Size(size); s._stride=tuple(stride); s._offset=offset; s.dtype=dt
        s.requires_grad=False; s.device=device()
    # --- metadata
    def size(s, d=None): return s._size if d is None else s._size[d]
    shape=property(lambda s:s._size)
    def stride(s): return s._stride
    def storage_offset(s): return s._offset
    def dim(s): return len(s._size)
    ndim=property(dim)
    def numel(s): return s._size.numel()
    def _idx(s): return itertools.product(*[range(n) for n in s._size])
    def _loc(s, ix): return s._offset+builtins.sum(i*t for i,t in zip(ix,s._stride))
    def _get(s, ix): return s.storage[s._loc(ix)]
    def _set(s, ix, v): s.storage[s._loc(ix)]=v
    def item(s):
        assert s.numel()==1; return s.storage[s._loc((0,)*s.dim())]
    # --- views
    def as_strided(s,size,stride,offset=None): return Tensor(s.storage,size,stride,s._offset if offset is None else offset,s.dtype)
    def expand(s,*size):
        if len(size)==1 and not isinstance(size[0],builtins.int): size=tuple(size[0])
        nd=len(size); pad=nd-s.dim()
        osz=(1,)*pad+tuple(s._size); ost=(0,)*pad+s._stride
        nsz=[];nst=[]
        for n,o,t in zip(size,osz,ost):
            if n==-1: n=o
            if o==n: nsz.append(n); nst.append(t)
            elif o==1: nsz.append(n); nst.append(0)
            else: raise RuntimeError('expand')
        return Tensor(s.storage,nsz,nst,s._offset,s.dtype)
    def permute(s,*dims):
        if len(dims)==1 and not isinstance(dims[0],builtins.int): dims=tuple(dims[0])
        return Tensor(s.storage,[s._size[d] for d in dims],[s._stride[d] for d in dims],s._offset,s.dtype)
    def unsqueeze(s,d):
        if d<0: d+=s.dim()+1
        sz=list(s._size); st=list(s._stride); sz.insert(d,1); st.insert(d,1)
        return Tensor(s.storage,sz,st,s._offset,s.dtype)
    def squeeze(s,d=None):
        keep=[i for i,n in enumerate(s._size) if not (n==1 and (d is None or i==d))]
        return Tensor(s.storage,[s._size[i] for i in keep],[s._stride[i] for i in keep],s._offset,s.dtype)
    def is_contiguous(s): return all(n==1 or t==c for n,t,c in zip(s._size,s._stride,_contig(s._size)))
    def clone(s):
        out=Tensor([s._get(ix) for ix in s._idx()],s._size,_contig(s._size),0,s.dtype); return out
    def view(s,*size):
        if len(size)==1 and not isinstance(size[0],builtins.int): size=tuple(size[0])
        assert s.is_contiguous(), 'probe: view only on contiguous'
        return Tensor(s.storage,size,_contig(size),s._offset,s.dtype)
    def reshape(s,*size):
        if len(size)==1 and not isinstance(size[0],builtins.int): size=tuple(size[0])
        return (s if s.is_contiguous() else s.clone()).view(*size)
    def __getitem__(s,index):
        if not isinstance(index,tuple): index=(index,)
        sz=[];st=[];off=s._offset;d=0
        for i in index:
            if i is None: sz.append(1); st.append(1)
            elif isinstance(i,slice):
                a,b,c=i.indices(s._size[d]); assert c==1
                sz.append(builtins.max(0,b-a)); st.append(s._stride[d]); off+=a*s._stride[d]; d+=1
            else:
                off+=i*s._stride[d]; d+=1
        sz+=s._size[d:]; st+=s._stride[d:]
        return Tensor(s.storage,sz,st,off,s.dtype)
    def repeat(s,*reps):
        sz=[n*r for n,r in zip(s._size,reps)]
        out=Tensor([None]*Size(sz).numel(),sz,_contig(sz),0,s.dtype)
        for ix in out._idx(): out._set(ix,s._get(tuple(i%n for i,n in zip(ix,s._size))))
        return out
    # --- elementwise
    def _bin_(s,o,f):
        o=o.expand(s._size) if isinstance(o,Tensor) else None
        for ix in list(s._idx()): s._set(ix,f(s._get(ix),o._get(ix)))
        return s
    def mul_(s,o): return s._bin_(o,lambda a,b:a*b)
    def add_(s,o): return s._bin_(o,lambda a,b:a+b)
    def nan_to_num_(s,nan=0.,posinf=None,neginf=None): return s
    def new_full(s,size,v): return full(size,v,dtype=s.dtype)
    def copy_(s,o): return s._bin_(o,lambda a,b:b)
    def sum(s,dim=None):
        dims=tuple(range(s.dim())) if dim is None else ((dim,) if isinstance(dim,builtins.int) else tuple(dim))
        keep=[d for d in range(s.dim()) if d not in dims]
        osz=[s._size[d] for d in keep]
        out=full(osz,0.,dtype=s.dtype)
        for ix in s._idx():
            oix=tuple(ix[d] for d in keep); out._set(oix,out._get(oix)+s._get(ix))
        return out
    def __repr__(s): return f'T{tuple(s._size)}'
def full(size,v,dtype=None):
    size=tuple(size); return Tensor([v]*Size(size).numel(),size,_contig(size),0,dtype or get_default_dtype())
def tensor(data,dtype=None):
    def shape(d): return (len(d),)+shape(d[0]) if isinstance(d,(list,tuple)) else ()
    def flat(d): return [x for e in d for x in flat(e)] if isinstance(d,(list,tuple)) else [d]
    sz=shape(data); return Tensor(flat(data),sz,_contig(sz),0,dtype or get_default_dtype())
def as_tensor(x,dtype=None,device=None): return x if isinstance(x,Tensor) else tensor(x,dtype)
def as_strided(t,size,stride): return t.as_strided(size,stride)
def sum(t,dim=None): return t.sum(dim)
def zeros(size,dtype=None,device=None): return full(tuple(size),0.,dtype)
def eye(n,dtype=None,device=None):
    t=zeros((n,n),dtype)
    for i in range(n): t._set((i,i),1.)
    return t
def nan_to_num(a,nan=0.,posinf=None,neginf=None,out=None): return a  # probe: finite regime
class LongTensor(Tensor): pass
class _Ctx:
    def save_for_backward(s,*a): s.saved_tensors=a
class autograd:
    class Function:
        @classmethod
        def apply(cls,*args):
            ctx=_Ctx(); return cls.forward(ctx,*args)
def __getattr__(name):
    def f(*a,**k): raise NotImplementedError(name)
    return f
