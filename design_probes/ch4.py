from typing import List, Optional, Tuple
import fggs, fggs.fggs
from fggs.formats import json_to_hrg, hrg_to_json

_pool: List[int] = []
def _fake_id(obj):
    return _pool.pop()

def _mk(ids, att, ext):
    nodes=[({'label':'T','id':i} if i is not None else {'label':'T'}) for i in ids]
    return {'terminals':{'f':{'type':['T']*len(att)}},'nonterminals':{'S':{'type':['T']*len(ext)}},'start':'S',
       'rules':[{'lhs':'S','rhs':{'nodes':nodes,'edges':[{'label':'f','attachments':list(att),'id':'e'}],'externals':list(ext)}}]}

def _roundtrip(ids: List[Optional[str]], addrs: List[int], att: List[int], ext: List[int]) -> bool:
    """
    pre: 1 <= len(ids) <= 3 and len(att) <= 2 and len(ext) <= 2
    pre: all(i is None or len(i) <= 2 for i in ids)
    pre: len(set(i for i in ids if i is not None)) == len([i for i in ids if i is not None])
    pre: len(addrs) == 8 and len(set(addrs)) == 8 and all(0 <= a < 200 for a in addrs)
    pre: all(0 <= a < len(ids) for a in att) and all(0 <= a < len(ids) for a in ext)
    post: _
    """
    global _pool
    _pool=list(addrs)
    old=fggs.fggs._id
    fggs.fggs._id=_fake_id
    try:
        j=_mk(ids,att,ext)
        g=json_to_hrg(j)
        j2=hrg_to_json(g)
        r2=j2['rules'][0]['rhs']
        r1=j['rules'][0]['rhs']
        # position map old index -> new index, by following attachments is impossible; use node identity in g
        rhs=g.all_rules()[0].rhs
        order=sorted(rhs.nodes(), key=lambda v: str(v.id))
        nodes_in=list(rhs.nodes())           # insertion order == json order
        pos={v:i for i,v in enumerate(order)}
        perm=[pos[v] for v in nodes_in]
        if [perm[a] for a in att] != r2['edges'][0]['attachments']: return False
        if [perm[a] for a in ext] != r2['externals']: return False
        for k,i in enumerate(ids):
            if r2['nodes'][perm[k]].get('id') != i: return False
        return True
    finally:
        fggs.fggs._id=old
