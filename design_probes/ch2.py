from typing import List, Tuple
import fggs
from fggs.utils import scc

def _oracle_reach(n, adj):
    r=[[i==j or adj[i*n+j] for j in range(n)] for i in range(n)]
    for k in range(n):
        for i in range(n):
            for j in range(n):
                if r[i][k] and r[k][j]: r[i][j]=True
    return r

def _scc3(adj: List[bool]) -> bool:
    """
    pre: len(adj) == 9
    post: _
    """
    n=3
    g={i:{j:None for j in range(n) if adj[i*n+j]} for i in range(n)}
    comps=scc(g)
    r=_oracle_reach(n,adj)
    seen=[]
    for c in comps:
        for v in c:
            if v in seen: return False
            seen.append(v)
    if sorted(seen)!=list(range(n)): return False
    for c in comps:
        vs=list(c)
        for u in vs:
            for v in range(n):
                same = r[u][v] and r[v][u]
                if same != (v in c): return False
    # order: no edge from earlier comp to later comp
    pos={v:i for i,c in enumerate(comps) for v in c}
    for i in range(n):
        for j in range(n):
            if adj[i*n+j] and pos[i] < pos[j]: return False
    return True
