# probe: tagged extended reals in z3
import z3, time, itertools
from fractions import Fraction

def B(x): return x if isinstance(x, z3.BoolRef) else z3.BoolVal(bool(x))
def Or(*a):
    a=[x for x in a if not (x is False)]
    if any(x is True for x in a): return True
    if not a: return False
    return a[0] if len(a)==1 else z3.Or(*a)
def And(*a):
    a=[x for x in a if not (x is True)]
    if any(x is False for x in a): return False
    if not a: return True
    return a[0] if len(a)==1 else z3.And(*a)
def Not(a):
    if a is True: return False
    if a is False: return True
    return z3.Not(a)
def Ite(c,a,b):
    if c is True: return a
    if c is False: return b
    return z3.If(c,a,b)

class SX:
    """extended real: nan/pinf/ninf flags (mutually exclusive), v real value when finite"""
    def __init__(s, v, pinf=False, ninf=False, nan=False):
        s.v=v; s.pinf=pinf; s.ninf=ninf; s.nan=nan
    @staticmethod
    def const(x):
        if x==float('inf'): return SX(z3.RealVal(0),True)
        if x==float('-inf'): return SX(z3.RealVal(0),False,True)
        return SX(z3.RealVal(x))
    def fin(s): return Not(Or(s.pinf,s.ninf,s.nan))
    def iszero(s): return And(s.fin(), s.v==0)
    def pos(s): return Or(s.pinf, And(s.fin(), s.v>0))
    def neg(s): return Or(s.ninf, And(s.fin(), s.v<0))
    def __mul__(a,b):
        nan=Or(a.nan,b.nan,And(Or(a.pinf,a.ninf),b.iszero()),And(Or(b.pinf,b.ninf),a.iszero()))
        anyinf=Or(a.pinf,a.ninf,b.pinf,b.ninf)
        pinf=And(Not(nan),anyinf,Or(And(a.pos(),b.pos()),And(a.neg(),b.neg())))
        ninf=And(Not(nan),anyinf,Or(And(a.pos(),b.neg()),And(a.neg(),b.pos())))
        return SX(a.v*b.v,pinf,ninf,nan)
    def __add__(a,b):
        nan=Or(a.nan,b.nan,And(a.pinf,b.ninf),And(a.ninf,b.pinf))
        pinf=And(Not(nan),Or(a.pinf,b.pinf)); ninf=And(Not(nan),Or(a.ninf,b.ninf))
        return SX(a.v+b.v,pinf,ninf,nan)
    def nan_to_num(s, nan=0):
        # nan->0 ; keep infs
        return SX(Ite(s.nan, z3.RealVal(nan), s.v), s.pinf, s.ninf, False)
    def eq(a,b):
        # semantic equality (nan != nan)
        return And(Not(a.nan),Not(b.nan), B(a.pinf)==B(b.pinf), B(a.ninf)==B(b.ninf), Or(Not(a.fin()), a.v==b.v))

def var(name, s):
    v=z3.Real(name); p=z3.Bool(name+'_inf')
    s.add(v>=0)
    return SX(v,p,False,False)

def run(n, solver='z3'):
    s=z3.Solver()
    A=[[var(f'a{i}{j}',s) for j in range(n)] for i in range(n)]
    Bm=[[var(f'b{i}{j}',s) for j in range(n)] for i in range(n)]
    c=[var(f'c{i}',s) for i in range(n)]
    # impl: t[i][j][k] = (A_ij * B_jk).ntn * c_k .ntn ; sum
    outs=[]
    for i in range(n):
        acc=None
        for j in range(n):
            for k in range(n):
                t=((A[i][j]*Bm[j][k]).nan_to_num()*c[k]).nan_to_num()
                acc=t if acc is None else acc+t
        outs.append(acc)
    # oracle: different association: A_ij * (B_jk*c_k), sum in k-major order
    outs2=[]
    for i in range(n):
        acc=None
        for k in range(n):
            for j in range(n):
                t=(A[i][j]*((Bm[j][k]*c[k]).nan_to_num())).nan_to_num()
                acc=t if acc is None else acc+t
        outs2.append(acc)
    bad=Or(*[Not(a.eq(b)) for a,b in zip(outs,outs2)])
    s.add(bad)
    t0=time.time(); r=s.check(); return str(r), time.time()-t0, s

for n in (2,3):
    r,t,s=run(n); print(n,r,round(t,2))
