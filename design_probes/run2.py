import sys, time, json
sys.path[:0]=['/verif/design_probes/symtorch','/repo']
import z3, torch
import fggs
from fggs import *
def sym(name, size):
    size=tuple(size); n=torch.Size(size).numel()
    return torch.Tensor([z3.Real(f'{name}{i}') for i in range(n)], size, torch._contig(size), 0, torch.float32)
g=FGG('S')
rhs=Graph(); v1=rhs.new_node('T'); rhs.new_edge('a',[v1],is_terminal=True); rhs.new_edge('X',[v1],is_nonterminal=True); g.new_rule('S',rhs)
rhs=Graph(); v1=rhs.new_node('T'); v2=rhs.new_node('T'); v3=rhs.new_node('T'); rhs.new_edge('t',[v1,v2],is_terminal=True); rhs.new_edge('b',[v2],is_terminal=True); rhs.ext=[v1]; g.new_rule('X',rhs)
g.new_finite_domain('T',[0,1])
A=sym('a',(2,)); Tm=sym('t',(2,2)); Bv=sym('b',(2,))
g.new_finite_factor('a',A); g.new_finite_factor('t',Tm); g.new_finite_factor('b',Bv)
t0=time.time()
z=sum_product(g, method='fixed-point')
print('ran', z.size(), z.physical.size(), time.time()-t0)
orc=z3.Sum([A._get((i,))*Tm._get((i,j))*Bv._get((j,))*2 for i in range(2) for j in range(2)])  # v3 edgeless internal: factor 2
s=z3.Solver(); s.add(z.physical.item()!=orc); print(s.check())
