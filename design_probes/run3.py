import sys, time, warnings
sys.path[:0]=['/verif/design_probes/symtorch2','/repo']
import z3, torch
from fggs import *
class Eng:
    def __init__(s): s.solver=z3.Solver(); s.work=[[]]; s.paths=0; s.checks=0
    def run(s,f):
        res=[]
        while s.work:
            s.prefix=s.work.pop(); s.pos=0; s.pc=[]
            res.append((f(s), list(s.pc))); s.paths+=1
        return res
    def branch(s,c):
        if s.pos<len(s.prefix): d=s.prefix[s.pos]
        else:
            s.solver.push(); s.solver.add(*s.pc)
            s.solver.push(); s.solver.add(c); t=s.solver.check()==z3.sat; s.solver.pop()
            s.solver.push(); s.solver.add(z3.Not(c)); f_=s.solver.check()==z3.sat; s.solver.pop()
            s.solver.pop(); s.checks+=2
            if t and f_: s.work.append(s.prefix[:s.pos]+[False]); d=True
            else: d=t
            s.prefix=s.prefix[:s.pos]+[d]
        s.pos+=1; s.pc.append(c if d else z3.Not(c)); return d
def symb(name,size):
    size=tuple(size); n=torch.Size(size).numel()
    return torch.Tensor([z3.Bool(f'{name}{i}') for i in range(n)],size,torch._contig(size),0,torch.bool)
D=int(sys.argv[1]) if len(sys.argv)>1 else 2
KMAX=int(sys.argv[2]) if len(sys.argv)>2 else D+1
b=symb('b',(D,)); t=symb('t',(D,D)); e=symb('e',(D,))
def body(eng):
    torch.ENGINE=eng
    g=FGG('S')
    rhs=Graph(); v=rhs.new_node('T'); rhs.new_edge('b',[v],is_terminal=True); rhs.new_edge('X',[v],is_nonterminal=True); g.new_rule('S',rhs)
    rhs=Graph(); v1=rhs.new_node('T'); v2=rhs.new_node('T'); rhs.new_edge('t',[v1,v2],is_terminal=True); rhs.new_edge('X',[v2],is_nonterminal=True); rhs.ext=[v1]; g.new_rule('X',rhs)
    rhs=Graph(); v1=rhs.new_node('T'); v2=rhs.new_node('T'); rhs.new_edge('t',[v1,v2],is_terminal=True); rhs.new_edge('e',[v2],is_terminal=True); rhs.ext=[v1]; g.new_rule('X',rhs)
    g.new_finite_domain('T',list(range(D)))
    g.new_finite_factor('b',b.clone()); g.new_finite_factor('t',t.clone()); g.new_finite_factor('e',e.clone())
    with warnings.catch_warnings(record=True) as w:
        warnings.simplefilter('always')
        zs=sum_products(g, semiring=BoolSemiring(), method='fixed-point', kmax=KMAX)
    X=[el for el in zs if el.name=='X'][0]
    xd=zs[X].to_dense(); sd=zs[g.start].to_dense()
    return ([xd._get((i,)) for i in range(D)], sd.item() if False else sd._get(()), len(w))
eng=Eng(); t0=time.time(); res=eng.run(body); print('paths',eng.paths,'checks',eng.checks,'time',round(time.time()-t0,2))
# Knaster-Tarski oracle
B=[b._get((i,)) for i in range(D)]; Tm=[[t._get((i,j)) for j in range(D)] for i in range(D)]; E=[e._get((i,)) for i in range(D)]
def G(x): return [z3.Or(*[z3.And(Tm[i][j], z3.Or(x[j],E[j])) for j in range(D)]) for i in range(D)]
y=[z3.Bool(f'y{i}') for i in range(D)]
nv=0
for (xr,sr,nw),pc in res:
    xr=[z3.BoolVal(v) if isinstance(v,bool) else v for v in xr]
    s=z3.Solver(); s.add(*pc)
    Gx=G(xr); Gy=G(y)
    notfix=z3.Or(*[Gx[i]!=xr[i] for i in range(D)])
    notleast=z3.And(z3.And(*[z3.Implies(Gy[i],y[i]) for i in range(D)]), z3.Or(*[z3.And(xr[i],z3.Not(y[i])) for i in range(D)]))
    sval=z3.Or(*[z3.And(B[i],xr[i]) for i in range(D)])
    s.add(z3.Or(notfix,notleast, sval!=(z3.BoolVal(sr) if isinstance(sr,bool) else sr)))
    r=s.check(); print('path warnings',nw,'verdict',r)
    if r==z3.sat: nv+=1
print('violating paths',nv, 'total', round(time.time()-t0,2))
