"""C13 runner (backend-agnostic): equal / allclose and friends against the dense definition"""
import itertools
import math
from oracles import denote
from oracles.c06_run import py_default
from gen import patterns


def build(B, spec, elems):
    return patterns.build(spec['recipe'], elems, py_default(spec['default']), B.torch, B.indices, B.dtype_of('num'))


def run(B, case, elems):
    mode = case['mode']
    t = build(B, case['operands'][0], elems[0])
    dt = denote.dense(t)
    out = []
    if mode in ('equal_default', 'allclose_default'):
        d = t.default
        if mode == 'equal_default':
            got = t.equal_default()
            want = B.all_([B.eq(a, d) for a in denote.denote(t)[1].values()])
        else:
            rtol, atol = case['tol']
            got = t.allclose_default(rtol=rtol, atol=atol)
            want = B.all_([B.isclose(a, d, rtol, atol, True) for a in denote.denote(t)[1].values()])
        return [(mode, got, want)]
    if mode in ('clone', 'redense', 'reflexive', 'repattern'):
        if mode == 'clone':
            u = t.clone()
        elif mode == 'redense':
            u = B.indices.PatternedTensor(t.to_dense(), default=py_default(case['operands'][0]['default']))
        elif mode == 'repattern':
            u = t.default_to(py_default(case['other_default']))
        else:
            u = t
        nonan = B.all_([B.not_(B.isnan(a)) for a in dt[1]])
        got = t.equal(u)
        got2 = u.equal(t)
        return [(mode, got, nonan if mode != 'repattern' else B.all_([B.eq(a, a) for a in dt[1]])), (mode + '_sym', got2, got)]
    u = build(B, case['operands'][1], elems[1])
    du = denote.dense(u)
    sameshape = tuple(dt[0]) == tuple(du[0])
    if mode == 'equal':
        got = t.equal(u)
        want = B.all_([B.eq(a, b) for a, b in zip(dt[1], du[1])]) if sameshape else False
        out.append(('equal', got, want))
    elif mode == 'equal_symmetric':
        got = t.equal(u)
        got2 = u.equal(t)
        out.append(('equal_symmetric', got, got2))
    elif mode == 'allclose':
        rtol, atol = case['tol']
        en = case.get('equal_nan', False)
        got = t.allclose(u, rtol=rtol, atol=atol, equal_nan=en)
        want = B.all_([B.isclose(a, b, rtol, atol, en) for a, b in zip(dt[1], du[1])]) if sameshape else False
        out.append(('allclose', got, want))
    # operands untouched
    out.append(('operands_unchanged', True, B.all_([B.same(a, b) for a, b in zip(dt[1] + du[1], denote.dense(t)[1] + denote.dense(u)[1])])))
    return out


def run_multi(B, case, elems):
    """MultiTensor.allclose with absent blocks: keys 'x','y' with shapes (2,) and ()"""
    from fggs.multi import MultiTensor
    T = B.torch
    sr = B.semiring(case['semiring'])
    shapes = {'x': T.Size((2,)), 'y': T.Size(())}
    zero = B.zero_of(case['semiring'])

    def mk(present, vals):
        m = MultiTensor(shapes, sr)
        flat = {}
        for key, n, vs in (('x', 2, vals[:2]), ('y', 1, vals[2:3])):
            if key in present:
                ten = B.tensor_dt(vs, (2,) if key == 'x' else (), B.dtype_of_sr(case['semiring']))
                m[key] = B.indices.PatternedTensor(ten, default=zero)
                flat[key] = list(vs)
            else:
                flat[key] = [zero] * n
        return m, flat['x'] + flat['y']
    a, fa = mk(case['present'][0], elems[0])
    b, fb = mk(case['present'][1], elems[1])
    tol = case['tolv']
    got = a.allclose(b, tol)
    if tol == 0:
        want = B.all_([B.eq(p, q) for p, q in zip(fa, fb)])
    else:
        want = B.all_([B.isclose(p, q, 0.0, tol, False) for p, q in zip(fa, fb)])
    return [('multi_allclose', got, want)]
