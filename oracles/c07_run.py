"""C07: patterned einsum against the definition of a semiring einsum.
Backend-agnostic (symbolic model / real torch), see c08_laws for the backend protocol."""
import itertools
from oracles import denote
from gen import patterns


def parse(sig):
    ins, out = sig.split('->')
    ins = ins.split(',') if ins else []
    return [list(x) for x in ins], list(out)


def definition(O, sizes, ins, out, dense_ops):
    """dense_ops[k]: dict index tuple -> element (already including defaults).
    returns flat list over the output index space (row-major)"""
    letters = []
    for x in ins:
        for c in x:
            if c not in letters:
                letters.append(c)
    summed = [c for c in letters if c not in out]
    res = []
    for oix in itertools.product(*[range(sizes[c]) for c in out]):
        env = dict(zip(out, oix))
        acc = O.zero
        for six in itertools.product(*[range(sizes[c]) for c in summed]):
            env.update(zip(summed, six))
            term = O.one
            for x, dop in zip(ins, dense_ops):
                term = O.mul(term, dop[tuple(env[c] for c in x)])
            acc = O.add(acc, term)
        res.append(acc)
    return res, summed


def dense_dict(t):
    shape, cells, default, problems = denote.denote(t)
    if problems:
        raise AssertionError('; '.join(problems))
    return {ix: cells.get(ix, default) for ix in itertools.product(*[range(n) for n in shape])}, shape


def run(B, case, elems_per_operand):
    """case: {'sig':..., 'sizes': {letter: n}, 'operands': [{'recipe':..., 'default':...}], 'requires_grad': bool, 'entry': 'einsum'|'mv'|'mm'|'viterbi'}"""
    ins, out = parse(case['sig'])
    sizes = case['sizes']
    O, sr = B.O, B.sr
    ops = []
    for spec, elems in zip(case['operands'], elems_per_operand):
        d = {'zero': B.pyzero, 'one': B.pyone, 'top': B.pytop}[spec['default']]
        t = patterns.build(spec['recipe'], elems, d, B.torch, B.indices, B.dtype)
        if case.get('requires_grad') and B.kind != 'bool':
            t.physical.requires_grad_(True)
        ops.append(t)
    dd = [dense_dict(t)[0] for t in ops]
    before = [dict(x) for x in dd]
    with B.oracle_ctx():
        want, summed = definition(O, sizes, ins, out, dd)
    entry = case.get('entry', 'einsum')
    items = []
    if entry == 'einsum':
        r = B.indices.einsum(ops, ins, out, sr)
    elif entry == 'mv':
        r = ops[0].mv(ops[1], sr)
    elif entry == 'mm':
        r = ops[0].mm(ops[1], sr)
    elif entry == 'viterbi':
        r, ptr = B.indices.log_viterbi_einsum_forward(ops, ins, out, sr)
    got, shape = dense_dict(r)
    oshape = tuple(sizes[c] for c in out)
    if tuple(shape) != oshape:
        items.append(('shape', [len(shape)] + list(shape), [len(oshape)] + list(oshape)))
        return items
    flat = [got[ix] for ix in itertools.product(*[range(n) for n in oshape])]
    items.append(('value', flat, want))
    items.append(('result_default_is_zero', [r.default], [B.pyzero]))
    after = [dense_dict(t)[0] for t in ops]
    for k, (a, b) in enumerate(zip(before, after)):
        items.append((f'operand{k}_unchanged', [a[i] for i in sorted(a)], [b[i] for i in sorted(b)]))
    if entry == 'viterbi':
        pd, pshape = dense_dict(ptr)
        if tuple(pshape) != oshape + (len(summed),):
            items.append(('ptr_shape', list(pshape), list(oshape + (len(summed),))))
            return items
        # the pointed-to term attains the maximum
        attained = []
        for oix in itertools.product(*[range(n) for n in oshape]):
            env = dict(zip(out, oix))
            ps = [pd[oix + (k,)] for k in range(len(summed))]
            conds = []
            for six in itertools.product(*[range(sizes[c]) for c in summed]):
                env.update(zip(summed, six))
                term = O.one
                for x, dop in zip(ins, dd):
                    term = O.mul(term, dop[tuple(env[c] for c in x)])
                conds.append((B.all_eq(ps, six), B.same(term, got[oix])))
            if conds:       # an empty index space (a summed-out axis of size 0) has no index values that could attain anything: only the value (zero) is claimed
                attained.append(conds)
        items.append(('argmax_attains', attained, None))
    return items
