"""Definitional sum-product of an FGG spec (see gen/grammars.py), semiring-generic and
backend-agnostic: O is an oracle semiring (oracles.semiring for sx scalars, or
oracles.semiring_float for Python floats).  Weights: {terminal: dict index tuple -> element}.

Z_X[ext assignment] = sum over rules X->R, over assignments of R's nodes agreeing with the
external assignment, of the product over R's edges of w(edge)[assignment of its nodes],
where w of a nonterminal edge is Z of its label (depth-bounded for recursive grammars)."""
import itertools


def sum_products(O, spec, weights, depth=None):
    """returns {nonterminal: dict ext tuple -> element}.  depth=None requires a non-recursive grammar;
    otherwise the value is the sum over derivations of depth <= depth (Kleene iterate)."""
    doms = spec['domains']
    rules = {}
    for r in spec['rules']:
        rules.setdefault(r['lhs'], []).append(r)
    memo = {}

    def Z(nt, d):
        key = (nt, d)
        if key in memo:
            return memo[key]
        typ = spec['nonterminals'][nt]
        res = {ix: O.zero for ix in itertools.product(*[range(doms[l]) for l in typ])}
        if d is not None and d <= 0:
            memo[key] = res
            return res
        memo[key] = None   # cycle guard for depth=None
        for r in rules.get(nt, []):
            tabs = []
            for e in r['edges']:
                if e['label'] in spec['nonterminals']:
                    sub = Z(e['label'], None if d is None else d - 1)
                    if sub is None:
                        raise ValueError('recursive grammar needs a depth bound')
                    tabs.append(sub)
                else:
                    tabs.append(weights[e['label']])
            for asst in itertools.product(*[range(doms[l]) for l in r['nodes']]):
                term = O.one
                for e, tab in zip(r['edges'], tabs):
                    term = O.mul(term, tab[tuple(asst[i] for i in e['att'])])
                ext = tuple(asst[i] for i in r['ext'])
                res[ext] = O.add(res[ext], term)
        memo[key] = res
        return res
    return {nt: Z(nt, depth) for nt in spec['nonterminals']}


def equations(O, spec, weights, x):
    """one application of the grammar's equations G to the valuation x = {nt: dict ext -> element}"""
    doms = spec['domains']
    out = {}
    for nt, typ in spec['nonterminals'].items():
        res = {ix: O.zero for ix in itertools.product(*[range(doms[l]) for l in typ])}
        for r in spec['rules']:
            if r['lhs'] != nt:
                continue
            tabs = [x[e['label']] if e['label'] in spec['nonterminals'] else weights[e['label']] for e in r['edges']]
            for asst in itertools.product(*[range(doms[l]) for l in r['nodes']]):
                term = O.one
                for e, tab in zip(r['edges'], tabs):
                    term = O.mul(term, tab[tuple(asst[i] for i in e['att'])])
                ext = tuple(asst[i] for i in r['ext'])
                res[ext] = O.add(res[ext], term)
        out[nt] = res
    return out
