"""C20: domains and factors index consistently and reject ill-shaped bindings (shared by harness and replayer)."""
import itertools
import math

POOL = [0, 1, 2, -1, 'a', 'b', '', (1, 2), 1.5, None]


def check_finite_domain(fggs, idxs, probe_i):
    vals = [POOL[i] for i in idxs]
    d = fggs.FiniteDomain(vals)
    p = []
    if d.size() != len(vals):
        p.append('size differs from the number of values')
    for i, v in enumerate(vals):
        if d.numberize(v) != i:
            p.append(f'numberize({v!r}) = {d.numberize(v)} but its position is {i}')
        if d.denumberize(i) != v or type(d.denumberize(i)) is not type(v):
            p.append(f'denumberize({i}) is not the {i}-th value')
        if not d.contains(v):
            p.append(f'contains({v!r}) is False for a value of the domain')
    if sorted(d.numberize(v) for v in vals) != list(range(len(vals))):
        p.append('numberize is not a bijection onto 0..size-1')
    probe = POOL[probe_i]
    if d.contains(probe) != any(probe == v for v in vals):
        p.append(f'contains({probe!r}) disagrees with membership')
    d2 = fggs.FiniteDomain(list(vals))
    if not (d == d2 and d2 == d) or d != d2:
        p.append('two domains with equal value lists are not equal')
    other = fggs.FiniteDomain(vals[1:] + vals[:1]) if len(vals) > 1 else fggs.FiniteDomain(vals + ['zz'])
    if (other == d) != (list(other.values) == list(vals)):
        p.append('domain equality is not by content (order matters)')
    if d == fggs.RangeDomain(len(vals)):
        p.append('a finite domain equals a range domain')
    j = d.to_json()
    if j != {'class': 'finite', 'values': list(vals)}:
        p.append('to_json does not describe the domain')
    return p


def check_range_domain(fggs, n, probe):
    d = fggs.RangeDomain(n)
    p = []
    if d.size() != n:
        p.append('size')
    for i in range(n):
        if d.numberize(i) != i or d.denumberize(i) != i or not d.contains(i):
            p.append(f'value {i} of range({n})')
    if d.contains(probe) != (0 <= probe < n):
        p.append(f'contains({probe}) for range({n})')
    if not (d == fggs.RangeDomain(n)) or d == fggs.RangeDomain(n + 1) or d != fggs.RangeDomain(n):
        p.append('range domain equality is not by size')
    return p


def check_factor_shape(B, dsizes, wshape, rep, elems):
    """FiniteFactor accepts exactly weights whose shape is the tuple of domain sizes"""
    fggs, T = B.fggs, B.torch
    doms = [fggs.FiniteDomain(list(range(n))) for n in dsizes]
    n = math.prod(wshape)
    flat = list(elems[:n])
    t = B.tensor(flat, wshape)
    if rep == 'list':
        w = t.tolist() if hasattr(t, 'tolist') else flat
    elif rep == 'tensor':
        w = t
    else:
        w = B.indices.PatternedTensor(t)
    should = tuple(dsizes) == tuple(wshape)
    try:
        f = fggs.FiniteFactor(doms, w)
    except ValueError:
        return [('accepts_exactly_matching_shapes', [not should], [True])], None
    items = [('accepts_exactly_matching_shapes', [should], [True])]
    if not should:
        return items, None
    # apply(values) returns the weight at the numberized position
    got, want = [], []
    for k, ix in enumerate(itertools.product(*[range(s) for s in dsizes])):
        r = f.apply(list(ix))
        got.append(B.scalar_of(r))
        want.append(flat[k])
    items.append(('apply_returns_cell', got, want))
    return items, f


def check_binding(fggs, torch, label_type, label_terminal, fac_dsizes, pre_bound, domains, variant=0):
    """add_factor succeeds iff terminal, arity and every domain match and the label is unbound"""
    g = fggs.FGG('S')
    for name, n in domains.items():
        g.add_domain(fggs.NodeLabel(name), fggs.FiniteDomain(list(range(n))))
    el = fggs.EdgeLabel('f', [fggs.NodeLabel(l) for l in label_type], is_terminal=label_terminal, is_nonterminal=not label_terminal)
    p = []
    ok_pre = False
    if pre_bound:
        try:
            g.add_factor(el, fggs.FiniteFactor([g.domains[l] for l in label_type if l in g.domains], torch.zeros(*[g.domains[l].size() for l in label_type if l in g.domains])))
            ok_pre = True
        except (ValueError, KeyError):
            ok_pre = False
    doms = [fggs.FiniteDomain(list(range(n))) for n in fac_dsizes]
    # content variants of equal size: 1/2 = first/last domain with other values, 3 = first domain a RangeDomain, 4 = last domain reordered
    if variant and fac_dsizes:
        k = 0 if variant in (1, 3) else len(doms) - 1
        n = fac_dsizes[k]
        doms[k] = (fggs.RangeDomain(n) if variant == 3 else
                   fggs.FiniteDomain(list(reversed(range(n)))) if variant == 4 else fggs.FiniteDomain(list(range(1, n + 1))))
    same_content = not (variant and fac_dsizes) or (variant == 4 and fac_dsizes[-1] <= 1)
    fac = fggs.FiniteFactor(doms, torch.zeros(*fac_dsizes) if fac_dsizes else torch.tensor(0.))
    should = (label_terminal and len(fac_dsizes) == len(label_type)
              and all(l in domains and domains[l] == n for l, n in zip(label_type, fac_dsizes)) and not ok_pre and same_content)
    before = dict(g.factors)
    try:
        g.add_factor(el, fac)
        did = True
    except ValueError:
        did = False
    if did != should:
        p.append(f'add_factor {"succeeded" if did else "was rejected"} for label type {label_type} terminal={label_terminal}, factor sizes {fac_dsizes}, content variant {variant}, domains {domains}, already bound={ok_pre}')
    if not did and dict(g.factors) != before:
        p.append('rejected add_factor changed the factors')
    if did:
        if g.factors.get('f') is not fac:
            p.append('factor not bound')
        if tuple(g.shape(el)) != tuple(fac_dsizes):
            p.append(f'shape() = {g.shape(el)} but the factor has sizes {fac_dsizes}')
    # add_domain rejects rebinding
    for name, n in domains.items():
        try:
            g.add_domain(fggs.NodeLabel(name), fggs.FiniteDomain(list(range(n + 1))))
            p.append('add_domain accepted rebinding a node label')
        except ValueError:
            pass
        if g.domains[name].size() != n:
            p.append('rejected add_domain changed the domain')
    # new_finite_factor: unknown label name -> KeyError
    try:
        g.new_finite_factor('nosuchlabel', 1.0)
        p.append('new_finite_factor accepted an unknown label name')
    except KeyError:
        pass
    return p
