"""Float versions of the oracle semirings (used by replayers under real torch)."""
import math


def _logaddexp(a, b):
    if math.isnan(a) or math.isnan(b):
        return math.nan
    m = max(a, b)
    if m == -math.inf:
        return -math.inf
    if m == math.inf:
        return math.inf
    return m + math.log(math.exp(a - m) + math.exp(b - m))


class Real:
    name = 'real'; zero = 0.0; one = 1.0; top = math.inf
    add = staticmethod(lambda a, b: a + b)
    mul = staticmethod(lambda a, b: 0.0 if a == 0 or b == 0 else a * b)
    le = staticmethod(lambda a, b: a <= b)
    from_int = staticmethod(lambda n: float(n))


class Log:
    name = 'log'; zero = -math.inf; one = 0.0; top = math.inf
    add = staticmethod(_logaddexp)
    mul = staticmethod(lambda a, b: -math.inf if a == -math.inf or b == -math.inf else a + b)
    le = staticmethod(lambda a, b: a <= b)
    from_int = staticmethod(lambda n: math.log(n) if n > 0 else -math.inf)


class Viterbi:
    name = 'viterbi'; zero = -math.inf; one = 0.0; top = math.inf
    add = staticmethod(lambda a, b: max(a, b))
    mul = staticmethod(lambda a, b: -math.inf if a == -math.inf or b == -math.inf else a + b)
    le = staticmethod(lambda a, b: a <= b)
    from_int = staticmethod(lambda n: 0.0 if n > 0 else -math.inf)


class Bool:
    name = 'bool'; zero = False; one = True; top = True
    add = staticmethod(lambda a, b: bool(a) or bool(b))
    mul = staticmethod(lambda a, b: bool(a) and bool(b))
    le = staticmethod(lambda a, b: (not a) or bool(b))
    from_int = staticmethod(lambda n: n > 0)


BY_NAME = {'real': Real, 'log': Log, 'viterbi': Viterbi, 'bool': Bool}


def close(a, b, rtol=1e-4, atol=1e-6):
    """semantic identity up to float rounding"""
    if isinstance(a, bool) or isinstance(b, bool):
        return bool(a) == bool(b)
    a = float(a); b = float(b)
    if math.isnan(a) or math.isnan(b):
        return math.isnan(a) and math.isnan(b)
    if math.isinf(a) or math.isinf(b):
        return a == b
    return abs(a - b) <= atol + rtol * max(abs(a), abs(b))
