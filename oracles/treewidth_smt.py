"""Treewidth as an SMT query: 'an elimination ordering of width <= k exists'
(ordering-based encoding in the style of Samer & Veith): Boolean ord[i][j] for i<j gives a linear order,
arc[i][j] says j is a higher neighbour of i in the triangulated graph, fill-in closes the arcs,
and every vertex has at most k higher neighbours."""
import itertools
import z3

_cache = {}


def exists_order(n, edges, k):
    if n == 0:
        return k >= -1
    if k < 0:
        return False
    key = (n, tuple(sorted(map(tuple, map(sorted, edges)))), k)
    if key in _cache:
        return _cache[key]
    s = z3.Solver()
    o = {}
    for i in range(n):
        for j in range(i + 1, n):
            o[i, j] = z3.Bool(f'o_{i}_{j}')

    def before(i, j):
        return o[i, j] if i < j else z3.Not(o[j, i])
    for i, j, l in itertools.permutations(range(n), 3):
        s.add(z3.Implies(z3.And(before(i, j), before(j, l)), before(i, l)))
    arc = {(i, j): z3.Bool(f'a_{i}_{j}') for i in range(n) for j in range(n) if i != j}
    for (u, v) in edges:
        if u != v:
            s.add(z3.Implies(before(u, v), arc[u, v]))
            s.add(z3.Implies(before(v, u), arc[v, u]))
    for i, j, l in itertools.permutations(range(n), 3):
        s.add(z3.Implies(z3.And(arc[i, j], arc[i, l], before(j, l)), arc[j, l]))
    for i in range(n):
        s.add(z3.AtMost(*[arc[i, j] for j in range(n) if j != i], k)) if n > 1 else None
    for (i, j) in arc:
        s.add(z3.Implies(arc[i, j], before(i, j)))
    r = s.check()
    assert r != z3.unknown
    _cache[key] = (r == z3.sat)
    return _cache[key]


def treewidth(n, edges):
    if n == 0:
        return -1
    k = 0
    while not exists_order(n, edges, k):
        k += 1
    return k
