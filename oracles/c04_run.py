"""C04 runner (backend-agnostic): viterbi() must return a well-formed derivation of maximal weight."""
import itertools
from oracles import denote, sumproduct
from oracles.c01_run import weight_tables
from gen import grammars


def check_wellformed(fgg, deriv, nt, nt_asst, spec, problems, depth=0):
    """recursive structural check of an FGGDerivation"""
    if depth > 50:
        problems.append('derivation deeper than 50')
        return
    rule = deriv.rule
    if rule.lhs != nt:
        problems.append(f'rule for {rule.lhs.name} used to rewrite {nt.name}')
        return
    if not any(rule is r for r in fgg.rules(nt)):
        problems.append(f'rule of the derivation is not a rule of the grammar for {nt.name}')
    for v in rule.rhs.nodes():
        if v not in deriv.asst:
            problems.append(f'node {v.label.name} of a rule instance for {nt.name} has no value')
            continue
        val = deriv.asst[v]
        n = spec['domains'][v.label.name]
        if not (isinstance(val, int) and 0 <= val < n):
            problems.append(f'value {val!r} outside the domain of size {n}')
    for v, a in zip(rule.rhs.ext, nt_asst):
        if deriv.asst.get(v) != a:
            problems.append(f'external node value {deriv.asst.get(v)} disagrees with the parent assignment {a}')
    nts = [e for e in rule.rhs.edges() if e.label.is_nonterminal]
    if set(map(id, deriv.children.keys())) != set(map(id, nts)) and set(deriv.children.keys()) != set(nts):
        problems.append('children do not correspond one-to-one to the nonterminal edges')
    for e in nts:
        if e in deriv.children and all(v in deriv.asst for v in e.nodes):
            check_wellformed(fgg, deriv.children[e], e.label, tuple(deriv.asst[v] for v in e.nodes), spec, problems, depth + 1)


def derivation_weight(O, deriv, weights):
    """weight of the derived factor graph under the derived assignment, by an independent evaluator"""
    graph, asst = deriv.derive()
    w = O.one
    for e in graph.edges():
        if e.label.is_nonterminal:
            return None, 'derived graph still contains a nonterminal edge'
        for v in e.nodes:
            if v not in asst:
                return None, 'derived assignment is not total'
        w = O.mul(w, weights[e.label.name][tuple(asst[v] for v in e.nodes)])
    for v in graph.nodes():
        if v not in asst:
            return None, 'derived assignment is not total'
    return w, None


def run(B, case, weights_flat):
    spec = case['spec']
    shapes = grammars.weight_shapes(spec)
    tensors = {name: B.tensor(weights_flat[name], shape) for name, shape in shapes.items()}
    fgg = grammars.build_fgg(spec, B.fggs, tensors)
    W = weight_tables(spec, weights_flat)
    with B.oracle_ctx():
        best = sumproduct.sum_products(B.O, spec, W, depth=case.get('depth'))[spec['start']][tuple(case['start_asst'])]
    # precondition of the property: the maximum is finite (assumed before the code under test runs)
    B.assume_finite(best)
    opts = {}
    if case.get('kmax') is not None:
        opts['kmax'] = case['kmax']
    if case.get('tol') is not None:
        opts['tol'] = case['tol']
    d = B.fggs.viterbi(fgg, tuple(case['start_asst']), **opts)
    problems = []
    check_wellformed(fgg, d, fgg.start, tuple(case['start_asst']), spec, problems)
    out = {'problems': problems, 'best': best, 'weight': None, 'werr': None, 'sp': None}
    if not problems:
        with B.oracle_ctx():
            out['weight'], out['werr'] = derivation_weight(B.O, d, W)
    # the Viterbi-semiring sum_product at that start assignment (non-recursive grammars only: exact)
    if not case.get('depth'):
        z = B.fggs.sum_product(fgg, semiring=B.sr, method='fixed-point')
        shape, flat = denote.dense(z)
        idx = list(itertools.product(*[range(n) for n in shape]))
        out['sp'] = dict(zip(idx, flat))[tuple(case['start_asst'])]
    return out
