"""Least fixed point of a *linearly recursive* grammar in dual numbers (value + partial derivatives w.r.t. every
weight), for grammars whose recursion coefficients are concrete numbers: inside an SCC every rule contains at
most one nonterminal of the SCC and the weights multiplying it are concrete, so that the Jacobian J of the SCC's
equations w.r.t. its own unknowns is a concrete matrix.  Then z = J z + g0 has the unique solution
z = (I - J)^-1 g0 when the spectral radius of J is < 1 (then also the least non-negative one), and
dz/dw = (I - J)^-1 dG/dw|_z (implicit function theorem).  The matrix is inverted exactly over the rationals;
the regime requires the inverse to be exactly representable in binary floating point (dyadic), which is
asserted, so that the oracle and the code under test can be compared as exact real terms."""
import itertools
from fractions import Fraction
from oracles import sumproduct, dual


def _sccs(spec):
    nts = list(spec['nonterminals'])
    dep = {n: set() for n in nts}
    for r in spec['rules']:
        for e in r['edges']:
            if e['label'] in spec['nonterminals']:
                dep[r['lhs']].add(e['label'])
    reach = {n: set(dep[n]) for n in nts}
    changed = True
    while changed:
        changed = False
        for n in nts:
            new = set().union(*[reach[m] for m in reach[n]]) if reach[n] else set()
            if not new <= reach[n]:
                reach[n] |= new
                changed = True
    comps, seen = [], set()
    for n in nts:
        if n in seen:
            continue
        c = [m for m in nts if m == n or (m in reach[n] and n in reach[m])]
        seen.update(c)
        comps.append((c, n in reach[n]))
    # dependencies first
    order, placed = [], set()
    while len(order) < len(comps):
        for c, rec in comps:
            if c[0] in placed:
                continue
            if all(m in placed or m in c for x in c for m in dep[x]):
                order.append((c, rec))
                placed.update(c)
    return order


def _inverse(M):
    n = len(M)
    A = [[Fraction(x) for x in row] + [Fraction(int(i == j)) for j in range(n)] for i, row in enumerate(M)]
    for k in range(n):
        p = next((i for i in range(k, n) if A[i][k] != 0), None)
        if p is None:
            raise ValueError('I - J is singular: outside the regime')
        A[k], A[p] = A[p], A[k]
        piv = A[k][k]
        A[k] = [x / piv for x in A[k]]
        for i in range(n):
            if i != k and A[i][k] != 0:
                f = A[i][k]
                A[i] = [x - f * y for x, y in zip(A[i], A[k])]
    inv = [row[n:] for row in A]
    out = []
    for row in inv:
        r = []
        for x in row:
            f = float(x)
            if Fraction(f) != x:
                raise ValueError(f'(I - J)^-1 has the non-dyadic entry {x}: outside the regime')
            r.append(f)
        out.append(r)
    return out


def solve(B, spec, W):
    """W: {terminal: {index: Dual}} -> {nonterminal: {ext index: Dual}}"""
    D = dual.make(B.sadd, B.smul)
    doms = spec['domains']
    zero = {nt: {ix: dual.Dual(0.0) for ix in itertools.product(*[range(doms[l]) for l in typ])} for nt, typ in spec['nonterminals'].items()}
    vals = {}

    def valuation(extra=None):
        x = {nt: dict(zero[nt]) for nt in zero}
        x.update(vals)
        if extra:
            x.update(extra)
        return x
    for comp, rec in _sccs(spec):
        if not rec:
            out = sumproduct.equations(D, spec, W, valuation())
            vals[comp[0]] = out[comp[0]]
            continue
        cells = [(nt, ix) for nt in comp for ix in zero[nt]]
        m = len(cells)
        # Jacobian w.r.t. the SCC's own unknowns, at x = 0 (constant for a linear SCC)
        seed = {nt: {} for nt in comp}
        for j, (nt, ix) in enumerate(cells):
            seed[nt][ix] = dual.Dual(0.0, {('x', j): 1.0})
        G0 = sumproduct.equations(D, spec, W, valuation(seed))
        J = [[G0[nt][ix].d.get(('x', j), 0.0) for j in range(m)] for nt, ix in cells]
        for row in J:
            for v in row:
                if not isinstance(v, (int, float)):
                    raise ValueError('recursion coefficient is not concrete: outside the regime')
        Minv = _inverse([[(1.0 if i == j else 0.0) - float(J[i][j]) for j in range(m)] for i in range(m)])
        g0 = [G0[nt][ix].v for nt, ix in cells]

        def apply(vec):
            out = []
            for i in range(m):
                acc = 0.0
                for j in range(m):
                    if Minv[i][j] != 0:
                        acc = B.sadd(acc, B.smul(Minv[i][j], vec[j]))
                out.append(acc)
            return out
        z = apply(g0)
        # derivatives: dG/dw at x = z (no derivative seeded on x)
        atz = {nt: {} for nt in comp}
        for (nt, ix), zi in zip(cells, z):
            atz[nt][ix] = dual.Dual(zi)
        Gz = sumproduct.equations(D, spec, W, valuation(atz))
        keys = set()
        for nt, ix in cells:
            keys.update(Gz[nt][ix].d)
        dz = [dict() for _ in cells]
        for k in keys:
            col = apply([Gz[nt][ix].d.get(k, 0.0) for nt, ix in cells])
            for i in range(m):
                dz[i][k] = col[i]
        for nt in comp:
            vals[nt] = {}
        for (nt, ix), zi, di in zip(cells, z, dz):
            vals[nt][ix] = dual.Dual(zi, di)
    return vals
