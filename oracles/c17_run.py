"""C17: conjunction generates exactly the paired rules (shared by harness and replayer)."""
import itertools

SKEL = {
    'A': {'nodes': {'n1': 'L', 'n2': 'L'}, 'ext': ['n1'], 'nts': {'e1': ['n2']}},
    'B': {'nodes': {'n1': 'L'}, 'ext': ['n1'], 'nts': {}},
    'C': {'nodes': {'n1': 'L', 'n2': 'L'}, 'ext': ['n1'], 'nts': {'e1': ['n2'], 'e2': ['n2']}},
    'D': {'nodes': {'n1': 'L', 'n2': 'L'}, 'ext': ['n1'], 'nts': {'e1': ['n1']}},      # same ids as A, different attachment
    'E': {'nodes': {'n1': 'L', 'n3': 'L'}, 'ext': ['n1'], 'nts': {'e1': ['n3']}},      # different node set
    # nonterminal edges of arity 2 (labels P / Q): same edge id and node set, attachment order swapped between F and G
    'F': {'nodes': {'n1': 'L', 'n2': 'L'}, 'ext': ['n1'], 'nts': {'e1': ['n1', 'n2']}},
    'G': {'nodes': {'n1': 'L', 'n2': 'L'}, 'ext': ['n1'], 'nts': {'e1': ['n2', 'n1']}},
    # rules for the arity-2 nonterminals: same nodes, external nodes listed in either order
    'H': {'nodes': {'n1': 'L', 'n2': 'L'}, 'ext': ['n1', 'n2'], 'nts': {}},
    'I': {'nodes': {'n1': 'L', 'n2': 'L'}, 'ext': ['n2', 'n1'], 'nts': {}},
}
ARITY2 = {'P', 'Q'}


def arity(name):
    return 2 if name in ARITY2 else 1


def build(fggs, gspec, which):
    """gspec: {'start': name, 'rules': [[lhs, skeleton, {edge id: label name}, [terminal names]]], 'terminals': {name: [node labels]}}"""
    def nt(name):
        return fggs.EdgeLabel(name, [fggs.NodeLabel('L')] * arity(name), is_nonterminal=True)
    h = fggs.HRG(nt(gspec['start']))
    for k, (lhs, sk, labs, terms) in enumerate(gspec['rules']):
        S = SKEL[sk]
        g = fggs.Graph()
        ns = {i: fggs.Node(fggs.NodeLabel(l), id=i) for i, l in S['nodes'].items()}
        for v in ns.values():
            g.add_node(v)
        nts_items = list(S['nts'].items())
        if gspec.get('reverse_edges'):
            nts_items.reverse()
        for eid, att in nts_items:
            g.add_edge(fggs.Edge(nt(labs[eid]), [ns[a] for a in att], id=eid))
        for j, tname in enumerate(terms):
            typ = gspec['terminals'][tname]
            g.add_edge(fggs.Edge(fggs.EdgeLabel(tname, [fggs.NodeLabel(l) for l in typ], is_terminal=True), [ns['n1']] * len(typ), id=f'{which}r{k}t{j}'))
        g.ext = [ns[i] for i in S['ext']]
        h.add_rule(fggs.HRGRule(nt(lhs), g))
    for tname, typ in gspec['terminals'].items():
        h.add_edge_label(fggs.EdgeLabel(tname, [fggs.NodeLabel(l) for l in typ], is_terminal=True))
    for extra in gspec.get('extra_nts', []):
        h.add_edge_label(nt(extra))
    return h


def canon_rule(r, rename=None):
    rn = rename or (lambda x: x)
    return (rn(r.lhs.name) if r.lhs.is_nonterminal else r.lhs.name,
            tuple(sorted((v.id, v.label.name) for v in r.rhs.nodes())),
            tuple(v.id for v in r.rhs.ext),
            tuple(sorted((e.id, rn(e.label.name) if e.label.is_nonterminal else e.label.name, e.label.is_terminal, tuple(v.id for v in e.nodes)) for e in r.rhs.edges())))


def conjoinable(r1, r2):
    """the definition: same nodes (id and label), same external list, same nonterminal edges by id and attachment"""
    n1 = sorted((v.id, v.label.name) for v in r1.rhs.nodes())
    n2 = sorted((v.id, v.label.name) for v in r2.rhs.nodes())
    e1 = sorted((e.id, tuple(v.id for v in e.nodes)) for e in r1.rhs.edges() if e.label.is_nonterminal)
    e2 = sorted((e.id, tuple(v.id for v in e.nodes)) for e in r2.rhs.edges() if e.label.is_nonterminal)
    return n1 == n2 and e1 == e2 and [v.id for v in r1.rhs.ext] == [v.id for v in r2.rhs.ext]


def check(fggs, g1spec, g2spec):
    h1, h2 = build(fggs, g1spec, 'a'), build(fggs, g2spec, 'b')
    o1 = (str(h1), str(h2))
    conflict = any(n in g2spec['terminals'] and g2spec['terminals'][n] != t for n, t in g1spec['terminals'].items())
    try:
        h = fggs.conjoin_hrgs(h1, h2)
    except ValueError as e:
        if not conflict:
            return [f'ValueError without a terminal-label conflict: {e}']
        if (str(h1), str(h2)) != o1:
            return ['conjoin_hrgs raised but modified its arguments']
        return []
    if conflict:
        return ['conflicting terminal labels were not reported with ValueError']
    p = []
    if (str(h1), str(h2)) != o1:
        p.append('conjoin_hrgs modified its arguments')
    # expected rules, with pair names as placeholders ('PAIR', a, b)
    expected = []
    for r1 in h1.all_rules():
        for r2 in h2.all_rules():
            if conjoinable(r1, r2):
                nodes = tuple(sorted((v.id, v.label.name) for v in r1.rhs.nodes()))
                ext = tuple(v.id for v in r1.rhs.ext)
                nts2 = {e.id: e for e in r2.rhs.edges() if e.label.is_nonterminal}
                edges = []
                for e in r1.rhs.edges():
                    if e.label.is_nonterminal:
                        edges.append((e.id, ('PAIR', e.label.name, nts2[e.id].label.name), False, tuple(v.id for v in e.nodes)))
                    else:
                        edges.append((e.id, e.label.name, True, tuple(v.id for v in e.nodes)))
                for e in r2.rhs.edges():
                    if e.label.is_terminal:
                        edges.append((e.id, e.label.name, True, tuple(v.id for v in e.nodes)))
                expected.append((('PAIR', r1.lhs.name, r2.lhs.name), nodes, ext, tuple(sorted(edges, key=repr))))
    got = [canon_rule(r) for r in h.all_rules()]
    if len(got) != len(expected):
        p.append(f'{len(got)} conjoined rules, expected {len(expected)} (one per conjoinable pair)')
        return p
    # the conjoined grammar lists its rules grouped by left-hand side: match got against expected as multisets,
    # looking for an assignment under which one consistent naming pair -> new name explains every rule
    def try_match(perm):
        naming = {}
        for gi, e in zip(perm, expected):
            g = got[gi]
            if (g[1], g[2]) != (e[1], e[2]) or len(g[3]) != len(e[3]):
                return None
            if naming.setdefault(e[0], g[0]) != g[0]:
                return None
            ge = sorted(g[3], key=lambda x: x[0])
            ee = sorted(e[3], key=lambda x: x[0])
            for (gid, gl, gt, ga), (eid, el, et, ea) in zip(ge, ee):
                if (gid, gt, ga) != (eid, et, ea):
                    return None
                if isinstance(el, tuple):
                    if naming.setdefault(el, gl) != gl:
                        return None
                elif gl != el:
                    return None
        return naming
    naming = None
    for perm in itertools.permutations(range(len(got))):
        naming = try_match(perm)
        if naming is not None:
            break
    if naming is None:
        p.append(f'no consistent naming of nonterminal pairs explains the conjoined rules {got} as the expected {expected}')
        return p
    names = list(naming.values())
    if len(set(names)) != len(names):
        p.append(f'two different nonterminal pairs share a name: {naming}')
    existing = {l.name for l in h1.edge_labels()} | {l.name for l in h2.edge_labels()}
    for pair, nme in naming.items():
        if nme in existing:
            p.append(f'paired nonterminal name {nme} collides with an existing label')
    sp = ('PAIR', h1.start.name, h2.start.name)
    if sp in naming and h.start.name != naming[sp]:
        p.append('start symbol is not the pair of the start symbols')
    if not h.start.is_nonterminal:
        p.append('start symbol is terminal')
    if not p:
        p += check_derivations(h1, h2, h)
    return p


# ---------------------------------------------------------------- derivations up to a depth bound

def _nt_edges(r):
    return sorted((e for e in r.rhs.edges() if e.label.is_nonterminal), key=lambda e: str(e.id))


def _decor(r):
    return (tuple(sorted((str(v.id), v.label.name) for v in r.rhs.nodes())), tuple(str(v.id) for v in r.rhs.ext),
            tuple(sorted((str(e.id), e.label.name, tuple(str(v.id) for v in e.nodes)) for e in r.rhs.edges() if e.label.is_terminal)))


def derivations(h, lab, depth, memo=None):
    """multiset (as a sorted list) of complete derivation trees of `lab` of depth <= depth; a tree is
    (decoration of the rule: nodes, externals, terminal edges; ((edge id, attachment), subtree) per nonterminal edge)"""
    memo = {} if memo is None else memo
    key = (lab.name, depth)
    if key in memo:
        return memo[key]
    out = []
    if depth > 0:
        for r in h.rules(lab):
            subs = []
            for e in _nt_edges(r):
                subs.append([((str(e.id), tuple(str(v.id) for v in e.nodes)), t) for t in derivations(h, e.label, depth - 1, memo)])
            for combo in itertools.product(*subs):
                out.append((_decor(r), tuple(combo)))
    memo[key] = out
    return out


def paired_derivations(h1, h2, l1, l2, depth, memo=None):
    """the definition: pairs of derivations of the same shape using conjoinable rules at every step, written as the tree the conjunction must generate"""
    memo = {} if memo is None else memo
    key = (l1.name, l2.name, depth)
    if key in memo:
        return memo[key]
    out = []
    if depth > 0:
        for r1 in h1.rules(l1):
            for r2 in h2.rules(l2):
                if not conjoinable(r1, r2):
                    continue
                e2 = {str(e.id): e for e in _nt_edges(r2)}
                subs = []
                for e in _nt_edges(r1):
                    subs.append([((str(e.id), tuple(str(v.id) for v in e.nodes)), t)
                                 for t in paired_derivations(h1, h2, e.label, e2[str(e.id)].label, depth - 1, memo)])
                d1, d2 = _decor(r1), _decor(r2)
                dec = (d1[0], d1[1], tuple(sorted(d1[2] + d2[2])))
                for combo in itertools.product(*subs):
                    out.append((dec, tuple(combo)))
    memo[key] = out
    return out


def check_derivations(h1, h2, h, depth=3, cap=4000):
    want = paired_derivations(h1, h2, h1.start, h2.start, depth)
    if len(want) > cap:
        return []
    got = derivations(h, h.start, depth)
    if sorted(map(repr, got)) != sorted(map(repr, want)):
        return [f'derivations of the conjunction up to depth {depth}: {len(got)}, paired derivations of the arguments: {len(want)} (or they differ in shape/decoration)']
    return []
