"""C08: the semiring laws, written once against a backend B so that the same
definitions are decided symbolically (python3-vt, model torch, sx scalars) and
replayed concretely (/venv, real torch, floats).

B provides: torch, fggs, indices, O (oracle semiring), sr (the real Semiring object),
dtype, tensor(elems, size), pt(recipe, elems, default), dense(x) -> flat element list,
le(a,b), and B.const(x) to inject a python constant as carrier element."""
import itertools
import math
from oracles import denote
from gen import patterns


def _dense(B, x):
    if type(x).__name__ == 'PatternedTensor':
        return denote.dense(x)[1]
    return denote.dense_of_tensor(x)[1]


def operand(B, spec, elems):
    """spec: {'rep': 'tensor', 'size': [...]} or {'rep':'pt', 'recipe':..., 'default': 'zero'|'one'|'top'}"""
    if spec['rep'] == 'tensor':
        return B.tensor(elems, spec['size'])
    d = {'zero': B.pyzero, 'one': B.pyone, 'top': B.pytop}[spec['default']]
    return patterns.build(spec['recipe'], elems, d, B.torch, B.indices, B.dtype)


def nelems(spec):
    if spec['rep'] == 'tensor':
        n = 1
        for s in spec['size']:
            n *= s
        return n
    return patterns.nelems(spec['recipe'])


def law_binary(B, op, xs, ys, xspec, yspec):
    """code op on the operands vs the oracle op on what they denote"""
    O, sr = B.O, B.sr
    x = operand(B, xspec, xs)
    y = operand(B, yspec, ys)
    dx, dy = _dense(B, x), _dense(B, y)
    if op == 'add':
        r = sr.add(x, y)
        want = [O.add(a, b) for a, b in zip(dx, dy)]
    elif op == 'mul':
        r = sr.mul(x, y)
        want = [O.mul(a, b) for a, b in zip(dx, dy)]
    elif op == 'sub':
        # sub(x,y) + y == x whenever y <= x  (premise returned separately)
        d = sr.sub(x, y)
        r = sr.add(d, y)
        want = dx
        prem = [O.le(b, a) for a, b in zip(dx, dy)]
        return [('sub_then_add', _dense(B, r), want, prem)]
    else:
        raise ValueError(op)
    out = [(op + '_vs_definition', _dense(B, r), want, None)]
    # arguments unchanged
    out.append((op + '_args_unchanged', _dense(B, x) + _dense(B, y), dx + dy, None))
    return out


def law_algebra(B, xs):
    """laws on three 0-d tensors, code against code"""
    O, sr = B.O, B.sr
    x, y, z = (B.tensor([e], ()) for e in xs[:3])
    d = lambda t: _dense(B, t)
    zero, one = sr.from_int(0), sr.from_int(1)
    out = [
        ('add_assoc', d(sr.add(sr.add(x, y), z)), d(sr.add(x, sr.add(y, z))), None),
        ('add_comm', d(sr.add(x, y)), d(sr.add(y, x)), None),
        ('mul_assoc', d(sr.mul(sr.mul(x, y), z)), d(sr.mul(x, sr.mul(y, z))), None),
        ('mul_comm', d(sr.mul(x, y)), d(sr.mul(y, x)), None),
        ('distrib', d(sr.mul(x, sr.add(y, z))), d(sr.add(sr.mul(x, y), sr.mul(x, z))), None),
        ('add_identity', d(sr.add(x, zero)), d(x), None),
        ('mul_identity', d(sr.mul(x, one)), d(x), None),
        ('annihilation', d(sr.mul(x, zero)), [B.const(O.zero)], None),
        ('annihilation_left', d(sr.mul(zero, x)), [B.const(O.zero)], None),
        ('zero_is_zero', d(zero), [B.const(O.zero)], None),
        ('one_is_one', d(one), [B.const(O.one)], None),
    ]
    return out


def law_sum(B, xs):
    """sum over a dimension and add_ agree with folded add"""
    O, sr = B.O, B.sr
    v = B.tensor(xs[:3], (3,))
    s = sr.sum(v, 0)
    acc = B.const(O.zero)
    for e in xs[:3]:
        acc = O.add(acc, e)
    m = B.tensor(xs[:4], (2, 2))
    s2 = sr.sum(m, 1)
    out = [('sum_vs_fold', _dense(B, s), [acc], None),
           ('sum_dim1', _dense(B, s2), [O.add(O.add(O.zero, xs[0]), xs[1]), O.add(O.add(O.zero, xs[2]), xs[3])], None)]
    a = B.tensor(xs[:2], (2,))
    b = B.tensor(xs[2:4], (2,))
    want = _dense(B, sr.add(a, b))
    sr.add_(a, b)
    out.append(('add_inplace', _dense(B, a), want, None))
    out.append(('add_inplace_arg_unchanged', _dense(B, b), list(xs[2:4]), None))
    return out


def law_star(B, xs, y):
    """star(x) is a solution of s = 1 + x*s and lies below every pre-fixed point y"""
    O, sr = B.O, B.sr
    x = B.tensor(xs[:1], ())
    s = _dense(B, sr.star(x))[0]
    rhs = O.add(B.const(O.one), O.mul(xs[0], s))
    out = [('star_is_solution', [s], [rhs], None)]
    # leastness: 1 + x*y <= y  ==>  s <= y   (y: arbitrary carrier element)
    prefix = O.le(O.add(B.const(O.one), O.mul(xs[0], y)), y)
    out.append(('star_is_least', None, None, (prefix, O.le(s, y))))
    return out


def _not(p):
    if isinstance(p, bool):
        return not p
    import sx
    return sx.Not(p)


def law_star_absorb(B, xs):
    """x < one so close to one that the float exp(x) is exactly 1.0 (the absorption class of exp):
    the least solution of s = 1 + x*s is finite, so star(x) must lie strictly below the infinite element"""
    O, sr = B.O, B.sr
    x = B.tensor(xs[:1], ())
    s = _dense(B, sr.star(x))[0]
    return [('star_finite_below_one', None, None, (True, _not(O.le(B.const(O.top), s))))]


def law_from_int(B, m, n):
    """from_int is the homomorphism from the naturals (m, n: naturals, maybe symbolic)"""
    O, sr = B.O, B.sr
    fm, fn = sr.from_int(B.int_tensor(m)), sr.from_int(B.int_tensor(n))
    out = [('from_int_add', _dense(B, sr.from_int(B.int_tensor(m + n))), _dense(B, sr.add(fm, fn)), None),
           ('from_int_mul', _dense(B, sr.from_int(B.int_tensor(m * n))), _dense(B, sr.mul(fm, fn)), None),
           ('from_int_def', _dense(B, fm), [B.from_int_oracle(m)], None)]
    return out


def law_eye(B):
    O, sr = B.O, B.sr
    e = _dense(B, sr.eye(2))
    z = _dense(B, sr.zeros(B.torch.Size((2,))))
    one, zero = B.const(O.one), B.const(O.zero)
    return [('eye', e, [one, zero, zero, one], None), ('zeros', z, [zero, zero], None)]
