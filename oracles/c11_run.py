"""C11 runner (backend-agnostic): cross-semiring consistency of sum_product on one grammar."""
import itertools
import math
from oracles import denote
from gen import grammars


def cross_semiring(Bs, case, w_real):
    """Bs: dict kind -> backend; w_real: {terminal: flat list of real weights (>= 0)}.
    Real run on w, Log run on log w, Viterbi run on log w, Bool run on (w > 0)"""
    spec = case['spec']
    shapes = grammars.weight_shapes(spec)
    out = {}
    for kind, B in Bs.items():
        tensors = {name: B.tensor([B.inject(x) for x in w_real[name]], shape) for name, shape in shapes.items()}
        fgg = grammars.build_fgg(spec, B.fggs, tensors)
        z = B.fggs.sum_product(fgg, method=case['method'], semiring=B.sr)
        shape, flat = denote.dense(z)
        out[kind] = (tuple(shape), flat)
    return out
