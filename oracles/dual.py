"""Forward-mode differentiation of the definitional sum-product: a semiring of dual numbers
(value, {variable: partial derivative}) over the real semiring, with the scalar arithmetic
supplied by the backend (sx scalars symbolically, Python floats in replays)."""


class Dual:
    __slots__ = ('v', 'd')

    def __init__(self, v, d=None):
        self.v = v
        self.d = d or {}


def make(add, mul):
    class D:
        zero = Dual(0.0)
        one = Dual(1.0)

        @staticmethod
        def add(a, b):
            d = dict(a.d)
            for k, x in b.d.items():
                d[k] = add(d[k], x) if k in d else x
            return Dual(add(a.v, b.v), d)

        @staticmethod
        def mul(a, b):
            d = {}
            for k, x in a.d.items():
                d[k] = mul(x, b.v)
            for k, x in b.d.items():
                t = mul(a.v, x)
                d[k] = add(d[k], t) if k in d else t
            return Dual(mul(a.v, b.v), d)
    return D
