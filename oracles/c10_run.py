"""C10 runner: real tree-decomposition code on a concrete graph (shared by harness and replayer)."""
from oracles import treedec


def mkgraph(n, edges, order=None):
    g = {i: set() for i in (order if order is not None else range(n))}
    for u, v in edges:
        g[u].add(v)
        g[v].add(u)
    return g


def run(n, edges, tw, order=None):
    """returns list of problems; tw: exact treewidth supplied by the caller's oracle"""
    from fggs import factorize as F
    problems = []
    for method in ('min_fill', 'quickbb', 'acb'):
        try:
            t = F.tree_decomposition(mkgraph(n, edges, order), method=method)
        except Exception as e:    # noqa
            problems.append((method, f'exception {type(e).__name__}: {e}'))
            continue
        msg = treedec.check_decomposition(n, edges, t)
        if msg:
            problems.append((method, 'invalid: ' + msg))
            continue
        w = treedec.width(t)
        if w < tw:
            problems.append((method, f'width {w} below the treewidth {tw}?'))
        if method in ('quickbb', 'acb') and w != tw:
            problems.append((method, f'width {w} but treewidth is {tw}'))
    g = mkgraph(n, edges, order)
    snapshot = {k: set(v) for k, v in g.items()}
    ub, order = F.min_fill(g)
    if g != snapshot:
        problems.append(('min_fill', 'mutated its argument'))
    if sorted(order) != list(range(n)):
        problems.append(('min_fill', f'order {order} is not a permutation of the vertices'))
    elif n and treedec.order_width(n, edges, order) != ub:
        problems.append(('min_fill', f'reports width {ub} but its order has width {treedec.order_width(n, edges, order)}'))
    if n and ub < tw:
        problems.append(('min_fill', f'upper bound {ub} below treewidth {tw}'))
    lb = F.minor_min_width(mkgraph(n, edges, order))
    if n and lb > tw:
        problems.append(('minor_min_width', f'lower bound {lb} above treewidth {tw}'))
    qub, qorder = F.quickbb(mkgraph(n, edges, order))
    if n:
        if qub != tw:
            problems.append(('quickbb', f'returns width {qub} but treewidth is {tw}'))
        if sorted(qorder) != list(range(n)) or treedec.order_width(n, edges, qorder) != qub:
            problems.append(('quickbb', f'order {qorder} does not have the reported width {qub}'))
    return problems
