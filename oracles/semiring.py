"""Mathematical semiring operations on sx scalars (the oracle side).
Each semiring is given by its carrier and its operations with the conventions the
property statements name: 0 x inf = 0 (zero annihilates the infinite element)."""
import math
import sx


class Real:
    name = 'real'
    zero = 0.0
    one = 1.0
    top = math.inf

    @staticmethod
    def add(a, b):
        return sx.add(a, b)

    @staticmethod
    def mul(a, b):
        if sx.isinf(a) is False and sx.isinf(b) is False:
            return sx.mul(a, b)            # finite operands: the product is already 0 when one is
        z = sx.Or(sx.eq(a, 0.0), sx.eq(b, 0.0))
        if z is True:
            return 0.0
        return sx.ite(z, 0.0, sx.mul(a, b))

    @staticmethod
    def le(a, b):
        return sx.le(a, b)

    @staticmethod
    def from_int(n):
        return float(n) if isinstance(n, int) else sx.SX.const(n)

    @staticmethod
    def in_carrier(a):
        return sx.And(sx.Not(sx.isnan(a)), sx.ge(a, 0.0))


class Log:
    """log-domain semiring in exponential representation (elements are LogV)"""
    name = 'log'
    zero = sx.LogV(0.0)
    one = sx.LogV(1.0)
    top = sx.LogV(math.inf)

    @staticmethod
    def add(a, b):
        return sx.LogV(Real.add(sx.as_log(a).e, sx.as_log(b).e))

    @staticmethod
    def mul(a, b):
        return sx.LogV(Real.mul(sx.as_log(a).e, sx.as_log(b).e))

    @staticmethod
    def le(a, b):
        return sx.le(sx.as_log(a).e, sx.as_log(b).e)

    @staticmethod
    def from_int(n):
        return sx.LogV(float(n) if isinstance(n, int) else sx.SX.const(n))

    @staticmethod
    def in_carrier(a):
        return Real.in_carrier(sx.as_log(a).e)


class Viterbi:
    name = 'viterbi'
    zero = -math.inf
    one = 0.0
    top = math.inf

    @staticmethod
    def add(a, b):
        return sx.maximum(a, b)

    @staticmethod
    def mul(a, b):
        if sx.isinf(a) is False and sx.isinf(b) is False:
            return sx.add(a, b)
        z = sx.Or(sx.eq(a, -math.inf), sx.eq(b, -math.inf))
        if z is True:
            return -math.inf
        return sx.ite(z, -math.inf, sx.add(a, b))

    @staticmethod
    def le(a, b):
        return sx.le(a, b)

    @staticmethod
    def from_int(n):
        if isinstance(n, int):
            return 0.0 if n > 0 else -math.inf
        return sx.ite(n > 0, 0.0, -math.inf)

    @staticmethod
    def in_carrier(a):
        return sx.Not(sx.isnan(a))


class Bool:
    name = 'bool'
    zero = False
    one = True
    top = True

    @staticmethod
    def add(a, b):
        return sx.Or(sx.to_bool(a), sx.to_bool(b))

    @staticmethod
    def mul(a, b):
        return sx.And(sx.to_bool(a), sx.to_bool(b))

    @staticmethod
    def le(a, b):
        return sx.Implies(sx.to_bool(a), sx.to_bool(b))

    @staticmethod
    def from_int(n):
        return n > 0

    @staticmethod
    def in_carrier(a):
        return True


BY_NAME = {'real': Real, 'log': Log, 'viterbi': Viterbi, 'bool': Bool}


def fold_add(S, xs):
    acc = S.zero
    for x in xs:
        acc = S.add(acc, x)
    return acc


def fold_mul(S, xs):
    acc = S.one
    for x in xs:
        acc = S.mul(acc, x)
    return acc
