"""C03 runner (backend-agnostic): gradients of sum_product against forward-mode derivatives of the
definitional sum-product."""
import itertools
import math
from oracles import denote, sumproduct, dual, lfp_linear
from oracles.c01_run import weight_tables
from gen import grammars


def oracle_jacobian(B, spec, weights_flat, depth=None, x_seed=None):
    """returns Z[nt][ext] as Dual numbers whose derivative keys are ('w', terminal, flat index)"""
    D = dual.make(B.sadd, B.smul)
    shapes = grammars.weight_shapes(spec)
    W = {}
    for name, shape in shapes.items():
        idx = list(itertools.product(*[range(n) for n in shape]))
        W[name] = {ix: dual.Dual(B.lin(weights_flat[name][k]), {('w', name, k): 1.0}) for k, ix in enumerate(idx)}
    return D, W


def run_nonrecursive(B, case, weights_flat, cot):
    """full forward + backward through the public API.  cot: flat cotangent over the dense start tensor"""
    spec = case['spec']
    shapes = grammars.weight_shapes(spec)
    tensors = {}
    for name, shape in shapes.items():
        t = B.tensor(weights_flat[name], shape)
        t.requires_grad_(True)
        tensors[name] = t
    fgg = grammars.build_fgg(spec, B.fggs, tensors)
    D, W = oracle_jacobian(B, spec, weights_flat)
    with B.oracle_ctx():
        Z = sumproduct.sum_products(D, spec, W)[spec['start']]
    if B.kind == 'log':
        # precondition (Log semiring): log Z is finite, i.e. every Z_j > 0 -- assumed before the code under test runs
        B.assume_positive([z.v for z in Z.values()])
    B.reset_tape()
    z = B.fggs.sum_product(fgg, method=case['method'], semiring=B.sr, j_precompute=case.get('j_precompute', False))
    zd = z.to_dense()
    shape = tuple(zd.size())
    C = B.tensor(cot[:max(1, math.prod(shape))], shape)
    B.backward(zd, C)
    idx = list(itertools.product(*[range(n) for n in shape]))
    items = []
    used = set()
    for r in spec['rules']:
        for e in r['edges']:
            used.add(e['label'])
    for name, sh in shapes.items():
        g = tensors[name].grad
        n = math.prod(sh)
        want = []
        for k in range(n):
            acc = 0.0
            for j, ix in enumerate(idx):
                dz = Z[ix].d.get(('w', name, k))
                if dz is None:
                    continue
                if B.kind == 'log':
                    # d log Z_j / d log w_k = (w_k / Z_j) dZ_j/dw_k   (exponential representation)
                    dz = B.sdiv(B.smul(B.lin(weights_flat[name][k]), dz), Z[ix].v)
                acc = B.sadd(acc, B.smul(cot[j], dz))
            want.append(acc)
        if g is None:
            got = [0.0] * n      # absent gradient = zero gradient
        else:
            got = denote.dense_of_tensor(g)[1]
        items.append((f'grad[{name}]', got, want))
    return items, [Z[ix].v for ix in idx]


def run_recursive_backward(B, case, weights_flat, zvals, cot):
    """SumProduct.backward driven directly for one recursive SCC of scalar (arity-0) nonterminals: the saved
    forward result is a symbolic fixed point z = G(z, w) (assumed, together with convergence of the
    transposed system), and the returned input gradients must be  (dG/dw)^T lambda  for the unique
    lambda = (dG/dz)^T lambda + c   (implicit function theorem)."""
    from fggs.sum_product import SumProduct, FGGMultiShape
    from fggs.multi import MultiTensor
    spec = case['spec']
    scc = case['scc']                       # names of the nonterminals of the SCC
    shapes = grammars.weight_shapes(spec)
    tensors = {name: B.tensor(weights_flat[name], shape) for name, shape in shapes.items()}
    fgg = grammars.build_fgg(spec, B.fggs, tensors)
    els = {el.name: el for el in fgg.edge_labels()}
    in_names = sorted(shapes)
    in_labels = tuple((els[n], fgg.factors[n].weights.nonphysical()) for n in in_names)
    out_labels = [els[n] for n in scc]

    class Ctx:
        pass
    ctx = Ctx()
    ctx.fgg = fgg
    ctx.opts = {'method': case['method'], 'semiring': B.sr, 'j_precompute': case.get('j_precompute', False)}
    ctx.in_labels = in_labels
    ctx.out_labels = out_labels
    ctx.saved_tensors = tuple(fgg.factors[n].weights.physical for n in in_names)
    ov = MultiTensor(FGGMultiShape(fgg, out_labels), B.sr)
    dead = set(case.get('dead', []))        # nonterminals of the SCC without a value (structurally unproductive): absent from out_values
    all_scc, all_cot = scc, cot
    for n, z in zip(scc, zvals):
        if n not in dead:
            ov[els[n]] = B.indices.PatternedTensor(B.tensor([z], ()), default=B.pyzero)
    ctx.out_values = ov
    live = [i for i, n in enumerate(scc) if n not in dead]
    scc = [scc[i] for i in live]
    zvals = [zvals[i] for i in live]
    cot = [cot[i] for i in live]
    if B.kind == 'log':
        # Log semiring: unknowns u = log z, parameters theta = log w.  With D = diag(z):  dF/du = D^-1 J D, dF/dtheta_k = D^-1 dG/dw_k w_k,
        # so the adjoint solves  lam' = J^T lam' + D^-1 c  and  grad_k = w_k sum_i lam'_i dG_i/dw_k
        cot = [B.sdiv(c, B.lin(z)) for c, z in zip(cot, zvals)]
    # oracle: duals seeded on z and w
    D = dual.make(B.sadd, B.smul)
    W = {}
    for name, shape in shapes.items():
        idx = list(itertools.product(*[range(n) for n in shape]))
        W[name] = {ix: dual.Dual(B.lin(weights_flat[name][k]), {('w', name, k): 1.0}) for k, ix in enumerate(idx)}
    X = {nt: {(): dual.Dual(0.0)} for nt in spec['nonterminals']}
    for n, z in zip(scc, zvals):
        X[n] = {(): dual.Dual(B.lin(z), {('z', n): 1.0})}
    with B.oracle_ctx():
        G = sumproduct.equations(D, spec, W, X)
    m = len(scc)
    J = [[G[scc[i]][()].d.get(('z', scc[j]), 0.0) for j in range(m)] for i in range(m)]
    Gv = [G[n][()].v for n in scc]
    # assumptions: z is a fixed point; the Neumann series of J converges (spectral radius < 1)
    pre = [B.eq(B.lin(z), g) for z, g in zip(zvals, Gv)]
    if m == 1:
        pre.append(B.lt(J[0][0], 1.0))
        det = B.ssub(1.0, J[0][0])
        lam_num = [cot[0]]
    else:
        a, b, c_, d = J[0][0], J[0][1], J[1][0], J[1][1]
        det = B.ssub(B.smul(B.ssub(1.0, a), B.ssub(1.0, d)), B.smul(b, c_))
        pre += [B.lt(a, 1.0), B.lt(d, 1.0), B.lt(0.0, det)]
        # (I - J^T) lam = c  ->  lam = adj/det
        lam_num = [B.sadd(B.smul(B.ssub(1.0, d), cot[0]), B.smul(c_, cot[1])),
                   B.sadd(B.smul(b, cot[0]), B.smul(B.ssub(1.0, a), cot[1]))]
    B.assume_all(pre)
    grad_out = [B.tensor([c], ()) for c in all_cot[:len(all_scc)]]
    res = SumProduct.backward(ctx, None, *grad_out)
    grads = res[4:]
    items = []
    for name, g in zip(in_names, grads):
        n = math.prod(shapes[name])
        got = denote.dense_of_tensor(g)[1] if g is not None else [0.0] * n
        # want_k * det = sum_i lam_num_i * dG_i/dw_k   (Log: times w_k / z_i handled through lin-domain chain rule)
        lhs, rhs = [], []
        for k in range(n):
            acc = 0.0
            for i in range(m):
                dg = G[scc[i]][()].d.get(('w', name, k))
                if dg is None:
                    continue
                acc = B.sadd(acc, B.smul(lam_num[i], dg))
            if B.kind == 'log':
                acc = B.smul(B.lin(weights_flat[name][k]), acc)
            lhs.append(B.smul(got[k], det))
            rhs.append(acc)
        items.append((f'grad[{name}]*det', lhs, rhs))
    return items


def run_linear_recursive(B, case, weights_flat, cot):
    """forward + backward through the public API on a linearly recursive grammar whose recursion weights are concrete
    (dyadic) numbers; oracle: least fixed point and its derivatives from oracles/lfp_linear.py"""
    spec = case['spec']
    shapes = grammars.weight_shapes(spec)
    tensors = {}
    for name, shape in shapes.items():
        t = B.tensor(weights_flat[name], shape)
        t.requires_grad_(True)
        tensors[name] = t
    fgg = grammars.build_fgg(spec, B.fggs, tensors)
    D, W = oracle_jacobian(B, spec, weights_flat)
    with B.oracle_ctx():
        Z = lfp_linear.solve(B, spec, W)[spec['start']]
    if B.kind == 'log':
        B.assume_positive([z.v for z in Z.values()])
    B.reset_tape()
    z = B.fggs.sum_product(fgg, method=case['method'], semiring=B.sr, **case.get('opts', {}))
    zd = z.to_dense()
    shape = tuple(zd.size())
    idx = list(itertools.product(*[range(n) for n in shape]))
    items = [('value', [B.lin(x) for x in denote.dense_of_tensor(zd)[1]], [Z[ix].v for ix in idx])]
    C = B.tensor(cot[:max(1, math.prod(shape))], shape)
    B.backward(zd, C)
    for name, sh in shapes.items():
        g = tensors[name].grad
        n = math.prod(sh)
        want = []
        for k in range(n):
            acc = 0.0
            for j, ix in enumerate(idx):
                dz = Z[ix].d.get(('w', name, k))
                if dz is None:
                    continue
                if B.kind == 'log':
                    dz = B.sdiv(B.smul(B.lin(weights_flat[name][k]), dz), Z[ix].v)
                acc = B.sadd(acc, B.smul(cot[j], dz))
            want.append(acc)
        got = [0.0] * n if g is None else denote.dense_of_tensor(g)[1]
        items.append((f'grad[{name}]', got, want))
    return items
