"""C02 runner (backend-agnostic): run sum_products on a recursive grammar, record warnings/exceptions,
return the result tables together with the independent equation map G."""
import itertools
import warnings
from oracles import denote, sumproduct
from oracles.c01_run import weight_tables
from gen import grammars


def run(B, case, weights_flat):
    spec = case['spec']
    shapes = grammars.weight_shapes(spec)
    tensors = {name: B.tensor(weights_flat[name], shape) for name, shape in shapes.items()}
    for name, pat in (case.get('patterned') or {}).items():
        # the same dense weights (semiring zero off the diagonal) handed over as a PatternedTensor with a diagonal pattern
        assert pat == 'diag' and len(shapes[name]) == 2 and shapes[name][0] == shapes[name][1]
        n = shapes[name][0]
        k = B.indices.PhysicalAxis(n)
        tensors[name] = B.indices.PatternedTensor(B.tensor([weights_flat[name][i * n + i] for i in range(n)], (n,)), (k,), (k, k), B.pyzero)
    fgg = grammars.build_fgg(spec, B.fggs, tensors)
    opts = dict(method=case['method'], semiring=B.sr, kmax=case['kmax'], tol=case['tol'])
    out = {'warned': False, 'exception': None, 'values': None}
    # observe the stopping criterion: every evaluation of MultiTensor.shouldStop is recorded
    from fggs.multi import MultiTensor
    orig = MultiTensor.shouldStop
    stops = []

    def rec(self, other, tol):
        r = orig(self, other, tol)
        stops.append(bool(r))
        return r
    MultiTensor.shouldStop = rec
    try:
        with warnings.catch_warnings(record=True) as w:
            warnings.simplefilter('always')
            try:
                allv = B.fggs.sum_products(fgg, **opts)
            except Exception as e:     # noqa
                if B.is_unmodelled(e):
                    raise
                out['exception'] = e
                allv = None
    finally:
        MultiTensor.shouldStop = orig
    out['stops'] = stops
    out['warned'] = any('maximum iteration' in str(x.message) for x in w)
    if allv is not None:
        vals = {}
        for el, val in allv.items():
            if el.name in spec['nonterminals']:
                shape, flat = denote.dense(val)
                typ = spec['nonterminals'][el.name]
                wshape = tuple(spec['domains'][l] for l in typ)
                if tuple(shape) != wshape:
                    out['shape_error'] = (el.name, tuple(shape), wshape)
                    continue
                vals[el.name] = dict(zip(itertools.product(*[range(n) for n in wshape]), flat))
        for nt in spec['nonterminals']:
            if nt not in vals:
                out.setdefault('missing', []).append(nt)
        out['values'] = vals
    out['weights'] = weight_tables(spec, weights_flat)
    return out


def G(B, spec, weights, x):
    with B.oracle_ctx():
        return sumproduct.equations(B.O, spec, weights, x)
