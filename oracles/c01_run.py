"""C01 runner (backend-agnostic)"""
import itertools
from oracles import denote, sumproduct
from gen import grammars


def weight_tables(spec, weights_flat):
    """weights_flat: {terminal: flat element list (row-major)} -> {terminal: dict index -> element}"""
    out = {}
    for name, shape in grammars.weight_shapes(spec).items():
        idx = list(itertools.product(*[range(n) for n in shape]))
        out[name] = dict(zip(idx, weights_flat[name]))
    return out


def run(B, case, weights_flat):
    spec = case['spec']
    shapes = grammars.weight_shapes(spec)
    tensors = {}
    for name, shape in shapes.items():
        t = B.tensor(weights_flat[name], shape)
        if case.get('requires_grad') and B.kind in ('real', 'log'):
            t.requires_grad_(True)
        tensors[name] = t
    fgg = grammars.build_fgg(spec, B.fggs, tensors)
    with B.oracle_ctx():
        want = sumproduct.sum_products(B.O, spec, weight_tables(spec, weights_flat))
    opts = dict(method=case['method'], semiring=B.sr)
    allv = B.fggs.sum_products(fgg, **opts)
    items = []
    names = {el.name for el in allv}
    items.append(('keys', sorted(names), sorted(set(spec['nonterminals']) | set(spec['terminals']))))
    for el, val in allv.items():
        if el.name not in spec['nonterminals']:
            continue
        shape, flat = denote.dense(val)
        typ = spec['nonterminals'][el.name]
        wshape = tuple(spec['domains'][l] for l in typ)
        items.append((f'shape[{el.name}]', list(shape), list(wshape)))
        if tuple(shape) == wshape:
            w = want[el.name]
            items.append((f'value[{el.name}]', flat, [w[ix] for ix in itertools.product(*[range(n) for n in wshape])]))
    z = B.fggs.sum_product(fgg, **opts)
    shape, flat = denote.dense(z)
    w = want[spec['start']]
    wshape = tuple(spec['domains'][l] for l in spec['nonterminals'][spec['start']])
    if tuple(shape) == wshape:
        items.append(('sum_product_start', flat, [w[ix] for ix in itertools.product(*[range(n) for n in wshape])]))
    else:
        items.append(('sum_product_shape', list(shape), list(wshape)))
    # the weights passed in are untouched
    for name in shapes:
        items.append((f'weights_unchanged[{name}]', denote.dense_of_tensor(tensors[name])[1], list(weights_flat[name])))
    return items
