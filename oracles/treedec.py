"""Reference checks for tree decompositions (C10, C05).  Pure Python (also used by replayers)."""
import itertools


def check_decomposition(n_vertices, edges, tree):
    """vertices 0..n-1 (or any hashables given as list), edges: iterable of pairs, tree: dict bag -> set of bags.
    returns None if `tree` is a valid tree decomposition, else a message"""
    verts = list(range(n_vertices)) if isinstance(n_vertices, int) else list(n_vertices)
    bags = list(tree.keys())
    if not bags:
        return 'no bags'
    for b in bags:
        if not isinstance(b, frozenset):
            return f'bag {b!r} is not a frozenset'
        for c in tree[b]:
            if c not in tree:
                return 'tree edge to a bag that is not a node of the tree'
            if b not in tree[c]:
                return 'tree adjacency is not symmetric'
            if c == b:
                return 'self loop in the tree'
    nedges = sum(len(tree[b]) for b in bags) // 2
    if nedges != len(bags) - 1:
        return f'not a tree: {len(bags)} bags, {nedges} edges'
    seen = {bags[0]}
    stack = [bags[0]]
    while stack:
        b = stack.pop()
        for c in tree[b]:
            if c not in seen:
                seen.add(c)
                stack.append(c)
    if len(seen) != len(bags):
        return 'tree is not connected'
    allv = set().union(*bags) if bags else set()
    if not allv <= set(verts):
        return f'bag contains a non-vertex: {allv - set(verts)}'
    for v in verts:
        if v not in allv:
            return f'vertex {v} is in no bag'
    for (u, v) in edges:
        if not any(u in b and v in b for b in bags):
            return f'edge {u}-{v} is covered by no bag'
    for v in verts:
        holding = [b for b in bags if v in b]
        seen = {holding[0]}
        stack = [holding[0]]
        while stack:
            b = stack.pop()
            for c in tree[b]:
                if v in c and c not in seen:
                    seen.add(c)
                    stack.append(c)
        if len(seen) != len(holding):
            return f'bags containing vertex {v} do not form a connected subtree'
    return None


def width(tree):
    return max(len(b) for b in tree) - 1


def order_width(n_or_verts, edges, order):
    """width of the elimination order (max number of higher neighbours at elimination)"""
    verts = list(range(n_or_verts)) if isinstance(n_or_verts, int) else list(n_or_verts)
    adj = {v: set() for v in verts}
    for u, v in edges:
        if u != v:
            adj[u].add(v)
            adj[v].add(u)
    w = 0
    for v in order:
        nb = adj[v]
        w = max(w, len(nb))
        for a in nb:
            for b in nb:
                if a != b:
                    adj[a].add(b)
        for a in nb:
            adj[a].discard(v)
        del adj[v]
    return w


def treewidth_bruteforce(n, edges):
    """exact treewidth by trying every elimination order (n <= 7)"""
    if n == 0:
        return -1
    best = n
    for order in itertools.permutations(range(n)):
        best = min(best, order_width(n, edges, order))
        if best == 0:
            break
    return best


def treewidth_dp(n, edges):
    """exact treewidth by dynamic programming over vertex subsets: TW(S) = min_v max(TW(S - v), |Q(S - v, v)|),
    Q(S, v) = vertices outside S + v reachable from v through S (Bodlaender, Fomin, Koster, Kratsch, Thilikos)"""
    from functools import lru_cache
    if n == 0:
        return -1
    nb = [0] * n
    for u, v in edges:
        nb[u] |= 1 << v
        nb[v] |= 1 << u

    @lru_cache(None)
    def q(S, v):
        seen, stack, out = 1 << v, [v], 0
        while stack:
            u = stack.pop()
            m = nb[u] & ~seen
            while m:
                b = m & -m
                w = b.bit_length() - 1
                m ^= b
                seen |= b
                if S >> w & 1:
                    stack.append(w)
                else:
                    out |= b
        return bin(out).count('1')

    @lru_cache(None)
    def tw(S):
        if S == 0:
            return -1
        best, m = n, S
        while m:
            b = m & -m
            v = b.bit_length() - 1
            m ^= b
            best = min(best, max(tw(S ^ b), q(S ^ b, v)))
        return best
    return tw((1 << n) - 1)
