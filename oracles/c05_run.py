"""C05 runner (backend-agnostic): factorization preserves the grammar's meaning and never widens a rule."""
import itertools
from oracles import denote
from gen import grammars


def structural(B, fgg, method, spec):
    """returns list of problems for factorize_rule / factorize_hrg / factorize_fgg with `method`"""
    import fggs
    from fggs import factorize as F
    problems = []
    seen_methods = []
    orig_td = F.tree_decomposition

    def spy(graph, method='min_fill'):
        seen_methods.append(method)
        return orig_td(graph, method=method)
    # ---- factorize_rule on every rule
    for r in fgg.all_rules():
        labels = set(fgg.edge_labels())
        before = set(labels)
        F.tree_decomposition = spy
        try:
            del seen_methods[:]
            new = F.factorize_rule(r, method=method, labels=labels)
        finally:
            F.tree_decomposition = orig_td
        if seen_methods != [method]:
            problems.append(f'factorize_rule: tree decomposition computed with methods {seen_methods}, requested {method}')
        problems += check_rule_factorization(r, new, before, labels)
    # ---- factorize_hrg / factorize_fgg: method honoured, start/terminals/factors kept
    for fn in ('factorize_hrg', 'factorize_fgg'):
        F.tree_decomposition = spy
        try:
            del seen_methods[:]
            g2 = getattr(F, fn)(fgg, method=method)
        finally:
            F.tree_decomposition = orig_td
        if any(m != method for m in seen_methods) or len(seen_methods) != len(fgg.all_rules()):
            problems.append(f'{fn}: tree decompositions computed with methods {sorted(set(seen_methods))} ({len(seen_methods)} calls), requested {method}')
        if g2.start != fgg.start:
            problems.append(f'{fn}: start symbol changed')
        if {t.name for t in g2.terminals()} - {t.name for t in fgg.terminals()}:
            problems.append(f'{fn}: new terminal labels appeared')
        used_before = sorted(e.label.name for r in fgg.all_rules() for e in r.rhs.edges() if e.label.is_terminal)
        used_after = sorted(e.label.name for r in g2.all_rules() for e in r.rhs.edges() if e.label.is_terminal)
        if used_before != used_after:
            problems.append(f'{fn}: multiset of terminal edges changed: {used_before} -> {used_after}')
        for r2 in g2.all_rules():
            pass
        # ---- fresh names against an adversarial label table: a terminal named like the first fresh nonterminal
        if fn == 'factorize_hrg':
            before_names = {l.name for l in fgg.edge_labels()}
            fresh_names = sorted(l.name for l in g2.nonterminals() if l.name not in before_names)
            if fresh_names:
                adv = fgg.copy()
                adv.add_edge_label(fggs.EdgeLabel(fresh_names[0], [], is_terminal=True))
                try:
                    g3 = F.factorize_hrg(adv, method=method)
                    taken = {l.name for l in adv.edge_labels()}
                    clash = sorted(l.name for l in g3.nonterminals() if l.name in taken and not adv.get_edge_label(l.name).is_nonterminal)
                    if clash:
                        problems.append(f'factorize_hrg: fresh nonterminal name(s) {clash} collide with an existing terminal label')
                except ValueError as ex:
                    problems.append(f'factorize_hrg: fresh nonterminal name collides with an existing terminal label named {fresh_names[0]!r} (ValueError)')
        if fn == 'factorize_fgg':
            if g2.factors is not fgg.factors and dict(g2.factors) != dict(fgg.factors):
                problems.append('factorize_fgg: factors changed')
            if g2.domains is not fgg.domains and dict(g2.domains) != dict(fgg.domains):
                problems.append('factorize_fgg: domains changed')
    return problems


def check_rule_factorization(r, new, labels_before, labels_after):
    """inlining the fresh nonterminals of `new` must reproduce rule r (nodes and edges are shared objects)"""
    problems = []
    fresh = [nr.lhs for nr in new if nr.lhs != r.lhs]
    tops = [nr for nr in new if nr.lhs == r.lhs]
    if len(tops) != 1:
        return [f'{len(tops)} new rules carry the original left-hand side {r.lhs.name}']
    top = tops[0]
    names = [l.name for l in fresh]
    if len(set(names)) != len(names):
        problems.append(f'fresh nonterminal names are not pairwise distinct: {names}')
    for l in fresh:
        if any(getattr(x, 'name', x) == l.name for x in labels_before):
            problems.append(f'fresh nonterminal name {l.name} collides with an existing label')
        if l not in labels_after:
            problems.append(f'fresh nonterminal {l.name} was not added to the labels argument')
    n0 = len(r.rhs.nodes())
    for nr in new:
        if len(nr.rhs.nodes()) > max(n0, 0):
            problems.append(f'new rule for {nr.lhs.name} has {len(nr.rhs.nodes())} nodes, the original rule has {n0}')
        if nr.lhs.type != nr.rhs.type:
            problems.append('new rule: lhs type differs from rhs type')
    if tuple(top.rhs.ext) != tuple(r.rhs.ext):
        problems.append('external nodes of the top rule differ from the original rule')
    by_lhs = {}
    for nr in new:
        by_lhs.setdefault(nr.lhs, []).append(nr)
    for l in fresh:
        if len(by_lhs[l]) != 1:
            problems.append(f'fresh nonterminal {l.name} has {len(by_lhs[l])} rules')
    # inline: walk from the top rule
    nodes = []
    edges = []
    used = {}

    def inline(nr, depth=0):
        if depth > 50:
            problems.append('cyclic factorization')
            return
        for v in nr.rhs.nodes():
            nodes.append(v)
        for e in nr.rhs.edges():
            if e.label in by_lhs and e.label != r.lhs and e.label in fresh:
                used[e.label] = used.get(e.label, 0) + 1
                child = by_lhs[e.label][0]
                if tuple(child.rhs.ext) != tuple(e.nodes):
                    problems.append(f'edge for {e.label.name} is attached to {[v.id for v in e.nodes]} but its rule has externals {[v.id for v in child.rhs.ext]}')
                inline(child, depth + 1)
            else:
                edges.append(e)
    inline(top)
    for l in fresh:
        if used.get(l, 0) != 1:
            problems.append(f'fresh nonterminal {l.name} is used {used.get(l, 0)} times')
    if set(nodes) != set(r.rhs.nodes()):
        problems.append('inlined rule has a different node set')
    if sorted(map(id, edges)) != sorted(map(id, r.rhs.edges())):
        lost = [e.label.name for e in r.rhs.edges() if not any(e is x for x in edges)]
        dup = len(edges) - len(set(map(id, edges)))
        problems.append(f'inlined rule has different edges (lost {lost}, duplicated {dup})')
    # a node shared by two new rules must travel through the externals (otherwise inlining would need two copies of it)
    def occurs(nr, v):
        return v in set(nr.rhs.nodes())
    for nr in new:
        for e in nr.rhs.edges():
            if e.label in fresh:
                child = by_lhs[e.label][0]
                sub = set()
                stack = [child]
                while stack:
                    c = stack.pop()
                    sub |= set(c.rhs.nodes())
                    for e2 in c.rhs.edges():
                        if e2.label in fresh:
                            stack.append(by_lhs[e2.label][0])
                shared = (set(nr.rhs.nodes()) & sub) - set(child.rhs.ext)
                if shared:
                    problems.append(f'node(s) {[v.id for v in shared]} occur inside and outside the sub-derivation of {e.label.name} without being external')
    return problems


def semantic(B, fgg, method):
    """sum_product before and after factorize_fgg, per cell"""
    g2 = B.fggs.factorize_fgg(fgg, method=method)
    z1 = B.fggs.sum_product(fgg, method='fixed-point', semiring=B.sr)
    z2 = B.fggs.sum_product(g2, method='fixed-point', semiring=B.sr)
    s1, f1 = denote.dense(z1)
    s2, f2 = denote.dense(z2)
    return [('shape', list(s1), list(s2)), ('sum_product_equal', f1, f2)] if tuple(s1) == tuple(s2) else [('shape', list(s1), list(s2))]


def run(B, case, weights_flat):
    spec = case['spec']
    shapes = grammars.weight_shapes(spec)
    tensors = {name: B.tensor(weights_flat[name], shape) for name, shape in shapes.items()}
    fgg = grammars.build_fgg(spec, B.fggs, tensors, explicit_ids=case.get('explicit_ids', False))
    problems = structural(B, fgg, case['method'], spec) if case.get('structural', True) else []
    items = semantic(B, fgg, case['method'])
    return problems, items
