"""Independent reference semantics for directed-graph questions (C19).
No z3, no torch: importable from the replayers under /venv/bin/python."""


def reach_closure(n, adj):
    """adj: set of (i,j). returns reach[i][j] (reflexive-transitive)"""
    r = [[i == j or (i, j) in adj for j in range(n)] for i in range(n)]
    for k in range(n):
        for i in range(n):
            if r[i][k]:
                for j in range(n):
                    if r[k][j]:
                        r[i][j] = True
    return r


def check_scc(n, adj, comps):
    """comps: list of collections of vertices, as returned by scc().
    returns None if correct, else a string"""
    seen = [v for c in comps for v in c]
    if sorted(seen) != list(range(n)):
        return f'not a partition: {comps}'
    r = reach_closure(n, adj)
    where = {}
    for ci, c in enumerate(comps):
        if len(c) == 0:
            return 'empty component'
        for v in c:
            where[v] = ci
    for i in range(n):
        for j in range(n):
            same = r[i][j] and r[j][i]
            if same != (where[i] == where[j]):
                return f'vertices {i},{j}: mutually reachable={same} but components {where[i]},{where[j]}'
    for (i, j) in adj:
        if where[i] < where[j]:
            return f'edge {i}->{j} goes from component {where[i]} into later component {where[j]}'
    return None
