"""C09 runner (backend-agnostic): semiring linear solvers against the least-solution
characterisation.  The oracle never iterates: for the value r returned by the code,
  (i)  r = A r + b                       (r is a solution)
  (ii) for every y:  A y + b <= y  =>  r <= y   (Knaster-Tarski: r is below every pre-fixed point)
with A, b the independently denoted dense system and the mathematical semiring operations."""
import itertools
from oracles import denote
from oracles.c06_run import py_default
from gen import patterns


def matvec(O, A, x, n):
    out = []
    for i in range(n):
        acc = O.zero
        for j in range(n):
            acc = O.add(acc, O.mul(A[i][j], x[j]))
        out.append(acc)
    return out


def kt_items(B, A, bcols, rcols, n, ycols, tag):
    """A: n x n, bcols/rcols/ycols: lists of columns (each a list of n)"""
    O = B.O
    items = []
    with B.oracle_ctx():
        for c, (b, r, y) in enumerate(zip(bcols, rcols, ycols)):
            Ar = matvec(O, A, r, n)
            items.append((f'{tag}solution[{c}]', 'same', r, [O.add(Ar[i], b[i]) for i in range(n)]))
            Ay = matvec(O, A, y, n)
            pre = [O.le(O.add(Ay[i], b[i]), y[i]) for i in range(n)]
            items.append((f'{tag}least[{c}]', 'implies', pre, [O.le(r[i], y[i]) for i in range(n)]))
    return items


def cols_of(flat, n, m):
    """row-major n x m (or n) -> list of m columns"""
    if m is None:
        return [list(flat)]
    return [[flat[i * m + c] for i in range(n)] for c in range(m)]


def run_dense(B, case, elems, yelems):
    """Semiring.solve on plain tensors"""
    n, m = case['n'], case.get('m')
    a = B.tensor(elems[0], (n, n))
    b = B.tensor(elems[1], (n,) if m is None else (n, m))
    A = [[elems[0][i * n + j] for j in range(n)] for i in range(n)]
    bc = cols_of(elems[1], n, m)
    x = B.sr.solve(a, b)
    sh, flat = denote.dense_of_tensor(x)
    items = [('shape', 'eq', list(sh), list((n,) if m is None else (n, m)))]
    if tuple(sh) == ((n,) if m is None else (n, m)):
        items += kt_items(B, A, bc, cols_of(flat, n, m), n, cols_of(yelems, n, m), '')
    items.append(('a_unchanged', 'same', denote.dense_of_tensor(a)[1], list(elems[0])))
    items.append(('b_unchanged', 'same', denote.dense_of_tensor(b)[1], list(elems[1])))
    return items


def run_patterned(B, case, elems, yelems):
    """PatternedTensor.solve"""
    specs = case['operands']
    dflt = {'zero': B.pyzero, 'one': B.pyone, 'top': B.pytop}
    a = patterns.build(specs[0]['recipe'], elems[0], dflt[specs[0]['default']], B.torch, B.indices, B.dtype)
    b = patterns.build(specs[1]['recipe'], elems[1], dflt[specs[1]['default']], B.torch, B.indices, B.dtype)
    (ash, aflat), (bsh, bflat) = denote.dense(a), denote.dense(b)
    n = ash[0]
    m = None if len(bsh) == 1 else bsh[1]
    A = [[aflat[i * n + j] for j in range(n)] for i in range(n)]
    x = a.solve(b, B.sr)
    xsh, xflat = denote.dense(x)
    items = [('shape', 'eq', list(xsh), list(bsh))]
    if tuple(xsh) == tuple(bsh):
        items += kt_items(B, A, cols_of(bflat, n, m), cols_of(xflat, n, m), n, cols_of(yelems, n, m), '')
    items.append(('a_unchanged', 'same', denote.dense(a)[1], aflat))
    items.append(('b_unchanged', 'same', denote.dense(b)[1], bflat))
    return items


KEYS = ['x', 'y']          # default; a case may name its own keys in case['keys']


def run_multi(B, case, elems, yelems):
    """multi_solve / multi_mv over two keys with block shapes case['shapes'] = {'x': [...], 'y': [...]};
    case['ablocks'] / case['bblocks']: which blocks are present; elems[0]: dict block -> flat elements, elems[1]: dict key -> flat"""
    from fggs.multi import MultiTensor, multi_solve, multi_mv
    T = B.torch
    shapes = {k: T.Size(tuple(v)) for k, v in case['shapes'].items()}
    KEYS = case.get('keys', ['x', 'y'])
    numel = {k: shapes[k].numel() for k in KEYS}
    off = {}
    N = 0
    for k in KEYS:
        off[k] = N
        N += numel[k]
    a = MultiTensor((shapes, shapes), B.sr)
    b = MultiTensor((shapes,), B.sr)
    A = [[B.O.zero for _ in range(N)] for _ in range(N)]
    bv = [B.O.zero for _ in range(N)]
    for (k1, k2) in case['ablocks']:
        k1, k2 = str(k1), str(k2)
        fl = elems[0][k1 + k2]
        a[k1, k2] = B.indices.PatternedTensor(B.tensor(fl, tuple(shapes[k1]) + tuple(shapes[k2])), default=B.pyzero)
        for i in range(numel[k1]):
            for j in range(numel[k2]):
                A[off[k1] + i][off[k2] + j] = fl[i * numel[k2] + j]
    for k in case['bblocks']:
        fl = elems[1][k]
        b[k] = B.indices.PatternedTensor(B.tensor(fl, tuple(shapes[k])), default=B.pyzero)
        for i in range(numel[k]):
            bv[off[k] + i] = fl[i]
    tr = case.get('transpose', False)
    if tr:
        A = [[A[j][i] for j in range(N)] for i in range(N)]
    before = {k: denote.dense(v)[1] for k, v in list(a.items()) + list(b.items())}
    items = []
    if case['entry'] == 'multi_mv':
        r = multi_mv(a, b, transpose=tr)
        with B.oracle_ctx():
            want = matvec(B.O, A, bv, N)
        got = [B.O.zero] * N
        got = list(got)
        for k in KEYS:
            if k in r:
                fl = denote.dense(r[k])[1]
                for i in range(numel[k]):
                    got[off[k] + i] = fl[i]
        items.append(('multi_mv', 'same', got, want))
    else:
        r = multi_solve(a, b, transpose=tr)
        got = [B.O.zero] * N
        got = list(got)
        for k in KEYS:
            if k in r:
                sh, fl = denote.dense(r[k])
                items.append((f'shape[{k}]', 'eq', list(sh), list(shapes[k])))
                for i in range(numel[k]):
                    got[off[k] + i] = fl[i]
        items += kt_items(B, A, [bv], [got], N, [yelems], '')
    after = {k: denote.dense(v)[1] for k, v in list(a.items()) + list(b.items())}
    items.append(('arguments_unchanged', 'same', [e for k in sorted(before, key=str) for e in before[k]],
                  [e for k in sorted(before, key=str) for e in after.get(k, [])]))
    items.append(('argument_keys_unchanged', 'eq', sorted(map(str, before)), sorted(map(str, after))))
    return items
