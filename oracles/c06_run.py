"""C06 runner (backend-agnostic): run one operation of the table on patterned operands and
on the dense tensors they denote."""
import itertools
import math
from oracles import denote, c06_ops
from gen import patterns

INV_PROBLEMS = []


def install_invariant_hook(indices):
    """FGGS_VERIF instrumentation, harness-side: every PatternedTensor constructed anywhere
    is checked against the representation invariant by the independent denotation"""
    PT = indices.PatternedTensor
    if getattr(PT, '_verif_hooked', False):
        return
    orig = PT.__post_init__

    def post(self):
        orig(self)
        try:
            shape, cells, default, problems = denote.denote(self)
        except Exception as e:     # noqa
            problems = [f'denotation failed: {type(e).__name__}: {e}']
        if problems:
            INV_PROBLEMS.append(problems[0])
    PT.__post_init__ = post
    PT._verif_hooked = True


def py_default(x):
    return {'nan': math.nan, 'inf': math.inf, '-inf': -math.inf}.get(x, x) if isinstance(x, str) else x


def dense_tensor(B, t):
    shape, flat = denote.dense(t)
    return B.tensor_dt(flat, shape, t.physical.dtype)


def flat_of(B, r):
    """(shape, flat elements, dtype-name) of a result"""
    if type(r).__name__ == 'PatternedTensor':
        shape, flat = denote.dense(r)
        return tuple(shape), flat, str(r.physical.dtype)
    if hasattr(r, 'size') and callable(r.size):
        shape, flat = denote.dense_of_tensor(r)
        return tuple(shape), flat, str(r.dtype)
    return None, r, 'python'


def run(B, case, elems_per_operand):
    """case: {'op': name, 'operands': [{'recipe','default'}], 'dtype':...}
    returns list of (name, lhs_list, rhs_list)"""
    T = B.torch
    op = next(o for o in c06_ops.table(T) if o['name'] == case['op'])
    del INV_PROBLEMS[:]
    ops = []
    for spec, elems in zip(case['operands'], elems_per_operand):
        dt = B.dtype_of(spec.get('elem', 'num'))
        ops.append(patterns.build(spec['recipe'], elems, py_default(spec['default']), T, B.indices, dt))
    if INV_PROBLEMS:
        # an ill-formed *input* would be a generator bug
        raise AssertionError('generator produced an ill-formed pattern: ' + INV_PROBLEMS[0])
    dens = [dense_tensor(B, t) for t in ops]
    before = [flat_of(B, t)[1] for t in ops]
    items = []
    with B.oracle_ctx():
        try:
            want = op['dense'](*dens)
            wexc = None
        except Exception as e:   # noqa
            want, wexc = None, e
    try:
        got = op['pt'](*ops)
        gexc = None
    except Exception as e:       # noqa
        if B.is_unmodelled(e):
            raise
        got, gexc = None, e
    if wexc is not None or gexc is not None:
        if B.is_unmodelled(wexc):
            raise wexc
        # both must fail alike (e.g. size mismatch)
        items.append(('raises_like_torch', [type(gexc).__name__ if gexc else 'ok'], [type(wexc).__name__ if wexc else 'ok']))
        return items
    if op.get('concrete'):
        items.append(('python_value', B.pylist(got), B.pylist(want)))
    else:
        gs, gf, gd = flat_of(B, got)
        ws, wf, wd = flat_of(B, want)
        items.append(('shape', list(gs), list(ws)))
        if gs == ws:
            items.append(('value', gf, wf))
        items.append(('dtype', [gd], [wd]))
    if op['inplace']:
        items.append(('receiver_is_result', [got is ops[0]], [True]))
        if not op.get('mutates_other'):
            for k in range(1, len(ops)):
                items.append((f'operand{k}_unchanged', flat_of(B, ops[k])[1], before[k]))
    elif not op.get('mutates_self'):
        for k in range(len(ops)):
            items.append((f'operand{k}_unchanged', flat_of(B, ops[k])[1], before[k]))
    if INV_PROBLEMS:
        items.append(('representation_invariant', [INV_PROBLEMS[0]], ['ok']))
    return items


def run_reshape(B, case, elems):
    T = B.torch
    del INV_PROBLEMS[:]
    spec = case['operands'][0]
    t = patterns.build(spec['recipe'], elems[0], py_default(spec['default']), T, B.indices, B.dtype_of('num'))
    d = dense_tensor(B, t)
    target, must = tuple(case['target']), case['must_succeed']
    items = []
    for fn in ('reshape', 'view'):
        want = d.reshape(*target)
        try:
            got = getattr(t, fn)(*target)
        except RuntimeError as e:
            items.append((fn + '_must_succeed', ['RuntimeError'], ['RuntimeError' if not (must and fn == 'reshape') else 'ok']))
            continue
        gs, gf, gd = flat_of(B, got)
        ws, wf, wd = flat_of(B, want)
        items.append((fn + '_shape', list(gs), list(ws)))
        if gs == ws:
            items.append((fn + '_value', gf, wf))
    if INV_PROBLEMS:
        items.append(('representation_invariant', [INV_PROBLEMS[0]], ['ok']))
    return items
