"""C16: well-formedness of Graph / HRG / FGG under sequences of public API calls.
A call sequence is a list of JSON-able call descriptions, executed by `play` on live objects
(shared by the symbolic harness and the replayer)."""
import copy as _copy

NODE_LABELS = ['L', 'M']
# edge-label universe: (name, type, terminal?)  -- f and X occur with two different types (name clashes)
EDGE_LABELS = [('f', ['L'], True), ('f', ['M'], True), ('g', ['L', 'L'], True), ('X', ['L'], False), ('X', ['M'], False), ('c', [], True),
               # a second nonterminal name that no grammar starts with (X is the start symbol of every HRG built here): used by rules only
               ('Y', ['L'], False), ('Y', ['M'], False)]
N_GRAPH_LABELS = 6
NODE_IDS = ['a', 'b', None]
EDGE_IDS = ['e', 'd', None]


def mk_label(fggs, k):
    name, typ, term = EDGE_LABELS[k]
    return fggs.EdgeLabel(name, [fggs.NodeLabel(l) for l in typ], is_terminal=term, is_nonterminal=not term)


# ---------------------------------------------------------------- observations and invariant

def node_key(v, implicit):
    return (v.label.name, v.id if v.persist_id else ('#', implicit.setdefault(v.id, len(implicit))))


def observe_graph(g):
    """canonical, hashable observation through the public accessors (implicit ids numbered by first appearance)"""
    imp = {}
    nodes = tuple(node_key(v, imp) for v in g.nodes())
    edges = tuple((e.label.name, tuple(l.name for l in e.label.type), e.label.is_terminal, e.id if e.persist_id else '#',
                   tuple(node_key(v, imp) for v in e.nodes)) for e in g.edges())
    ext = tuple(node_key(v, imp) for v in g.ext)
    nl = tuple(sorted(l.name for l in g.node_labels()))
    el = tuple(sorted((l.name, tuple(x.name for x in l.type), l.is_terminal) for l in g.edge_labels()))
    return ('G', nodes, edges, ext, tuple(l.name for l in g.type), nl, el)


def inv_graph(g):
    p = []
    ids = [v.id for v in g.nodes()]
    if len(set(ids)) != len(ids):
        p.append('node ids not unique')
    eids = [e.id for e in g.edges()]
    if len(set(eids)) != len(eids):
        p.append('edge ids not unique')
    nodes = list(g.nodes())
    for e in g.edges():
        for v in e.nodes:
            if not any(v is w or v == w for w in nodes):
                p.append(f'edge {e.label.name} is attached to a node that is not in the graph')
        if tuple(e.label.type) != tuple(v.label for v in e.nodes):
            p.append('edge nodes do not carry the labels its label demands')
    for v in g.ext:
        if not any(v is w or v == w for w in nodes):
            p.append('external node is not a node of the graph')
    names = {}
    for e in g.edges():
        names.setdefault(e.label.name, set()).add((tuple(l.name for l in e.label.type), e.label.is_terminal))
    for l in g.edge_labels():
        names.setdefault(l.name, set()).add((tuple(x.name for x in l.type), l.is_terminal))
    for n, s in names.items():
        if len(s) > 1:
            p.append(f'edge-label name {n} denotes {len(s)} different labels')
    for e in g.edges():
        if not g.has_edge_label_name(e.label.name):
            p.append(f'label of an edge ({e.label.name}) is not registered')
    for v in g.nodes():
        if not g.has_node_label_name(v.label.name):
            p.append(f'label of a node ({v.label.name}) is not registered')
    return p


def observe_hrg(h):
    rules = tuple((r.lhs.name, tuple(l.name for l in r.lhs.type), observe_graph(r.rhs)) for r in h.all_rules())
    nl = tuple(sorted(l.name for l in h.node_labels()))
    el = tuple(sorted((l.name, tuple(x.name for x in l.type), l.is_terminal) for l in h.edge_labels()))
    start = None if h.start is None else (h.start.name, tuple(l.name for l in h.start.type))
    extra = ()
    if hasattr(h, 'domains'):
        extra = (tuple(sorted((k, d.size()) for k, d in h.domains.items())), tuple(sorted((k, tuple(f.weights.size())) for k, f in h.factors.items())))
    return ('H', rules, start, nl, el, extra)


def inv_hrg(h):
    p = []
    names = {}
    for l in h.edge_labels():
        names.setdefault(l.name, set()).add((tuple(x.name for x in l.type), l.is_terminal))
    for r in h.all_rules():
        if r.lhs.is_terminal:
            p.append('terminal left-hand side')
        if tuple(r.lhs.type) != tuple(r.rhs.type):
            p.append('lhs type differs from rhs type')
        p += ['rule rhs: ' + x for x in inv_graph(r.rhs)]
        names.setdefault(r.lhs.name, set()).add((tuple(x.name for x in r.lhs.type), r.lhs.is_terminal))
        if not h.has_edge_label_name(r.lhs.name):
            p.append('lhs of a rule is not a registered label')
        for e in r.rhs.edges():
            names.setdefault(e.label.name, set()).add((tuple(x.name for x in e.label.type), e.label.is_terminal))
            if not h.has_edge_label_name(e.label.name):
                p.append(f'label {e.label.name} of a rhs edge is not registered')
    for n, s in names.items():
        if len(s) > 1:
            p.append(f'edge-label name {n} denotes {len(s)} different labels')
    if h.start is not None:
        if h.start.is_terminal:
            p.append('terminal start symbol')
        if not h.has_edge_label_name(h.start.name) or h.get_edge_label(h.start.name) != h.start:
            p.append('start symbol is not the registered label of its name')
    if hasattr(h, 'factors'):
        for n, f in h.factors.items():
            if not h.has_edge_label_name(n):
                p.append(f'factor bound to unknown label {n}')
                continue
            el = h.get_edge_label(n)
            if el.is_nonterminal:
                p.append('factor bound to a nonterminal')
            if len(f.domains) != el.arity:
                p.append('factor arity differs from label arity')
            for nl, d in zip(el.type, f.domains):
                if nl.name not in h.domains or h.domains[nl.name] != d:
                    p.append('factor domain differs from the domain of the node label')
    return p


# ---------------------------------------------------------------- playing a call sequence on a Graph

def play_graph(fggs, calls, out=None):
    """returns (problems, final observation, trace).  A call is a list:
    ['add_node', label_i, id_i] ['remove_node', k] ['add_edge', label_k, [node refs], id_i] ['remove_edge', k]
    ['set_ext', [node refs]] ['copy']            node ref: ['n', k] existing k-th node, ['new', label_i, id_i] fresh node"""
    g = fggs.Graph()
    problems = []
    trace = []

    def node_of(ref):
        if ref[0] == 'n':
            ns = list(g.nodes())
            return ns[ref[1] % len(ns)] if ns else fggs.Node(fggs.NodeLabel('L'))
        return fggs.Node(fggs.NodeLabel(NODE_LABELS[ref[1]]), id=NODE_IDS[ref[2]])
    for call in calls:
        before = observe_graph(g)
        raised = None
        try:
            op = call[0]
            if op == 'add_node':
                g.add_node(fggs.Node(fggs.NodeLabel(NODE_LABELS[call[1]]), id=NODE_IDS[call[2]]))
            elif op == 'remove_node':
                ns = list(g.nodes())
                g.remove_node(ns[call[1] % len(ns)] if ns else fggs.Node(fggs.NodeLabel('L'), id='zz'))
            elif op == 'add_edge':
                nodes = [node_of(r) for r in call[2]]
                g.add_edge(fggs.Edge(mk_label(fggs, call[1]), nodes, id=EDGE_IDS[call[3]]))
            elif op == 'remove_edge':
                es = list(g.edges())
                g.remove_edge(es[call[1] % len(es)] if es else fggs.Edge(mk_label(fggs, 5), [], id='zz'))
            elif op == 'set_ext':
                g.ext = [node_of(r) for r in call[1]]
            elif op == 'copy':
                c = g.copy()
                if not (c == g and g == c):
                    problems.append('copy is not equal to the original')
                if observe_graph(c) != observe_graph(g):
                    problems.append('copy differs from the original in an observation (label tables?)')
                # independence: mutate the copy, the original must not change
                o = observe_graph(g)
                try:
                    c.add_node(fggs.Node(fggs.NodeLabel('M'), id='copy-only'))
                    c.add_edge(fggs.Edge(fggs.EdgeLabel('copy-only-label', [fggs.NodeLabel('M')], is_terminal=True), [list(c.nodes())[-1]], id='copy-only-edge'))
                    c.ext = [list(c.nodes())[-1]]
                except Exception:       # noqa
                    pass
                if observe_graph(g) != o:
                    problems.append('mutating a copy changed the original')
                g = g.copy()
        except (ValueError, TypeError, KeyError) as e:
            raised = e
        after = observe_graph(g)
        trace.append((call, type(raised).__name__ if raised else None))
        if raised is not None and after != before:
            problems.append(f'{call[0]} raised {type(raised).__name__} but changed the graph')
        problems += [f'after {call[0]}: {x}' for x in inv_graph(g)]
        if problems:
            break
    # == is an equivalence that tells graphs apart
    if not problems:
        c = g.copy()
        if not (g == g and c == g):
            problems.append('== is not reflexive / copy not equal')
    if out is not None:
        out['obj'] = g
    return problems, observe_graph(g), trace


# ---------------------------------------------------------------- HRG / FGG sequences

RULES = [   # (lhs label index into EDGE_LABELS (nonterminals 3,4), rhs spec)
    (3, {'nodes': [0], 'edges': [(0, [0])], 'ext': [0]}),               # X:(L) -> f:(L)(v)   ext v
    (4, {'nodes': [1], 'edges': [(1, [0])], 'ext': [0]}),               # X:(M) -> f:(M)(v)   clashes with X:(L) and f:(L)
    (3, {'nodes': [0, 0], 'edges': [(2, [0, 1]), (3, [1])], 'ext': [0]}),  # X:(L) -> g(v,w) X(w)
    (3, {'nodes': [0], 'edges': [(0, [0]), (1, [0])], 'ext': [0]}),     # ill-typed edge: f:(M) on an L node (Edge() raises)
    (3, {'nodes': [0, 1], 'edges': [(0, [0]), (1, [1])], 'ext': [0]}),  # uses f:(L) and f:(M) in one rhs (name clash inside the rule)
    (3, {'nodes': [1], 'edges': [], 'ext': [0]}),                       # lhs type (L) differs from rhs type (M): HRGRule raises
    (5, {'nodes': [], 'edges': [], 'ext': []}),                         # terminal lhs: HRGRule raises
    (3, {'nodes': [0, 1], 'edges': [(4, [1])], 'ext': [0]}),            # lhs X:(L), rhs edge X:(M): the rule clashes with itself
    (4, {'nodes': [1, 0], 'edges': [(3, [1]), (1, [0])], 'ext': [0]}),  # lhs X:(M), rhs edges X:(L) and f:(M)
    (6, {'nodes': [0, 1], 'edges': [(7, [1])], 'ext': [0]}),            # lhs Y:(L), rhs edge Y:(M): clashes with itself on a name new to the grammar
    (6, {'nodes': [0], 'edges': [(6, [0]), (0, [0])], 'ext': [0]}),     # well-formed rule for Y:(L)
    (3, {'nodes': [0, 1, 1], 'edges': [(7, [1]), (0, [0])], 'ext': [0]}),   # lhs X:(L) with a rhs edge Y:(M)
]


def build_rule(fggs, k):
    lhs_k, spec = RULES[k]
    g = fggs.Graph()
    ns = [fggs.Node(fggs.NodeLabel(NODE_LABELS[i])) for i in spec['nodes']]
    for v in ns:
        g.add_node(v)
    for (lk, att) in spec['edges']:
        g.add_edge(fggs.Edge(mk_label(fggs, lk), [ns[i] for i in att]))
    g.ext = [ns[i] for i in spec['ext']]
    return fggs.HRGRule(mk_label(fggs, lhs_k), g)


def play_hrg(fggs, calls, fgg=False, out=None):
    """calls: ['add_rule', k] ['set_start', label_k | name] ['add_edge_label', k] ['add_node_label', i] ['copy']
              FGG: ['add_domain', label_i, size] ['add_factor', label_k, size-tuple] ['new_finite_factor', name, size-tuple]"""
    import torch
    start = mk_label(fggs, 3)
    h = (fggs.FGG if fgg else fggs.HRG)(start)
    problems = []
    trace = []
    for call in calls:
        before = observe_hrg(h)
        raised = None
        try:
            op = call[0]
            if op == 'add_rule':
                try:
                    r = build_rule(fggs, call[1])
                except Exception as e:     # noqa  (ill-formed rule rejected at construction: nothing to add)
                    trace.append((call, 'rule rejected: ' + type(e).__name__))
                    continue
                h.add_rule(r)
            elif op == 'set_start':
                h.start = mk_label(fggs, call[1]) if isinstance(call[1], int) else call[1]
            elif op == 'add_edge_label':
                h.add_edge_label(mk_label(fggs, call[1]))
            elif op == 'add_node_label':
                h.add_node_label(fggs.NodeLabel(NODE_LABELS[call[1]]))
            elif op == 'add_domain':
                h.add_domain(fggs.NodeLabel(NODE_LABELS[call[1]]), fggs.FiniteDomain(list(range(call[2]))))
            elif op == 'add_factor':
                el = mk_label(fggs, call[1])
                doms = [fggs.FiniteDomain(list(range(n))) for n in call[2]]
                h.add_factor(el, fggs.FiniteFactor(doms, torch.zeros(*call[2]) if call[2] else torch.tensor(0.)))
            elif op == 'new_finite_factor':
                h.new_finite_factor(call[1], torch.zeros(*call[2]) if call[2] else torch.tensor(0.))
            elif op == 'copy':
                c = h.copy()
                if not (c == h and h == c):
                    problems.append('copy is not equal to the original')
                if observe_hrg(c) != observe_hrg(h):
                    problems.append('copy differs from the original in an observation')
                o = observe_hrg(h)
                try:
                    c.add_rule(build_rule(fggs, 0))
                    c.add_edge_label(fggs.EdgeLabel('copy-only', [], is_terminal=True))
                    for r in c.all_rules()[:1]:
                        r.rhs.add_node(fggs.Node(fggs.NodeLabel('M'), id='copy-only'))
                        r.rhs.add_edge(fggs.Edge(fggs.EdgeLabel('copy-only-label', [fggs.NodeLabel('M')], is_terminal=True), [list(r.rhs.nodes())[-1]], id='copy-only-edge'))
                    if fgg:
                        for f in c.factors.values():
                            f.weights.physical.fill_(7.)
                except Exception:      # noqa
                    pass
                if observe_hrg(h) != o:
                    problems.append('mutating a copy changed the original')
                if fgg and any(float(f.weights.physical.sum()) != 0 for f in h.factors.values()):
                    problems.append('mutating the factor weights of a copy changed the original')
                h = h.copy()
        except (ValueError, TypeError, KeyError) as e:
            raised = e
        after = observe_hrg(h)
        trace.append((call, type(raised).__name__ if raised else None))
        if raised is not None and after != before:
            problems.append(f'{call[0]} raised {type(raised).__name__} but changed the grammar')
        problems += [f'after {call[0]}: {x}' for x in inv_hrg(h)]
        if problems:
            break
    if out is not None:
        out['obj'] = h
    return problems, observe_hrg(h), trace


# ---------------------------------------------------------------- == across histories

def has_implicit(obs):
    return '#' in repr(obs)


def eq_part(obs):
    """the part of an observation that == is documented to compare: Graph: nodes, edges, externals; HRG: rules, start, label tables"""
    return obs[1:4] if obs[0] == 'G' else obs[1:5]


def compare_objects(a, obs_a, b, obs_b):
    """problems with == between two live objects reached through different call sequences"""
    p = []
    ab, ba = (a == b), (b == a)
    if ab != ba:
        p.append('== is not symmetric')
    if (a != b) == ab:
        p.append('!= is not the negation of ==')
    if eq_part(obs_a) != eq_part(obs_b):
        if ab or ba:
            p.append('== holds between objects that differ in nodes, edges, external nodes, rules or start symbol')
    elif not has_implicit(obs_a) and not has_implicit(obs_b) and obs_a == obs_b:
        if not (ab and ba):
            p.append('== fails between two objects built by different call sequences that agree in every observation (all ids explicit)')
    return p
