"""C18 runner (backend-agnostic): queries are pure and reproducible; clones are independent.

Shared by the symbolic harness (z3-valued tensor model) and the replayer (real torch).  Nothing here
calls a function under test to decide what "unchanged" means: a snapshot is read off the objects
through the public accessors plus the raw storage cells of every tensor reachable from them."""
import itertools
import json
import math
from oracles import denote
from gen import grammars, patterns


# ---------------------------------------------------------------------------------------- snapshots

def storage_cells(t):
    """every cell of the storage a tensor views (not only the viewed ones): model -> the element objects,
    real torch -> the raw bytes"""
    if hasattr(t, '_storage'):
        return list(t._storage)
    return list(t.untyped_storage().tolist())


def snap_tensor(t):
    return {'meta': [list(t.size()), list(t.stride()), int(t.storage_offset()), str(t.dtype), bool(t.requires_grad)],
            'oid': id(t), 'cells': storage_cells(t)}


def canon_axes(pt):
    num = {}

    def c(e):
        n = type(e).__name__
        if n == 'PhysicalAxis':
            return ['p', num.setdefault(id(e), len(num)), e._numel]
        if n == 'ProductAxis':
            return ['prod'] + [c(f) for f in e.factors]
        if n == 'SumAxis':
            return ['sum', e.before, c(e.term), e.after]
        return [n]
    return [[c(k) for k in pt.paxes], [c(e) for e in pt.vaxes]]


def snap_pt(w):
    d = w.default
    return {'axes': canon_axes(w), 'default': repr(d) if isinstance(d, (bool, int, float)) else 'sym', 'oid': id(w), 'phys': snap_tensor(w.physical)}


def snap_graph(g):
    nodes = [[id(v), v.label.name, str(v.id) if v.persist_id else '#', bool(v.persist_id)] for v in g.nodes()]
    edges = [[id(e), e.label.name, [l.name for l in e.label.type], bool(e.label.is_terminal), str(e.id) if e.persist_id else '#',
              [id(v) for v in e.nodes]] for e in g.edges()]
    return {'oid': id(g), 'nodes': nodes, 'edges': edges, 'ext': [id(v) for v in g.ext],
            'node_labels': sorted(l.name for l in g.node_labels()),
            'edge_labels': sorted([l.name, [x.name for x in l.type], bool(l.is_terminal)] for l in g.edge_labels())}


def snap_hrg(h):
    """(structure, tensors): structure is JSON-able and compared verbatim, tensors is a list of (name, cells)"""
    s = {'oid': id(h), 'start': None if h.start is None else [h.start.name, [l.name for l in h.start.type]],
         'node_labels': sorted(l.name for l in h.node_labels()),
         'edge_labels': sorted([l.name, [x.name for x in l.type], bool(l.is_terminal)] for l in h.edge_labels()),
         'rules': [[id(r), r.lhs.name, [l.name for l in r.lhs.type], snap_graph(r.rhs)] for r in h.all_rules()]}
    tensors = []
    if hasattr(h, 'domains'):
        s['domains_oid'] = id(h.domains)
        s['factors_oid'] = id(h.factors)
        s['domains'] = [[k, type(d).__name__, id(d), d.size(), [repr(d.denumberize(i)) for i in range(d.size())] if math.isfinite(d.size()) else None]
                        for k, d in h.domains.items()]
        fs = []
        for k, f in h.factors.items():
            ent = [k, type(f).__name__, id(f), [id(d) for d in f.domains]]
            if hasattr(f, '_weights'):
                w = f._weights
                sp = snap_pt(w)
                tensors.append((k, sp['phys'].pop('cells')))
                ent.append(sp)
            else:
                ent.append(repr(f.weight))
            fs.append(ent)
        s['factors'] = fs
    return s, tensors


def diff_structure(a, b, path=''):
    """first difference between two JSON-able snapshots (None if equal)"""
    if type(a) != type(b):
        return f'{path}: {a!r} -> {b!r}'
    if isinstance(a, dict):
        for k in a:
            if k not in b:
                return f'{path}.{k}: removed'
            d = diff_structure(a[k], b[k], f'{path}.{k}')
            if d:
                return d
        for k in b:
            if k not in a:
                return f'{path}.{k}: added'
        return None
    if isinstance(a, list):
        if len(a) != len(b):
            return f'{path}: length {len(a)} -> {len(b)}'
        for i, (x, y) in enumerate(zip(a, b)):
            d = diff_structure(x, y, f'{path}[{i}]')
            if d:
                return d
        return None
    if a != b and not (isinstance(a, float) and isinstance(b, float) and math.isnan(a) and math.isnan(b)):
        return f'{path}: {a!r} -> {b!r}'
    return None


# ---------------------------------------------------------------------------------------- canonical results

def canon_result_graph(g, imp):
    def nk(v):
        return [v.label.name, str(v.id) if v.persist_id else ['#', imp.setdefault(('n', v.id), len(imp))]]
    return {'nodes': [nk(v) for v in g.nodes()],
            'edges': [[e.label.name, [l.name for l in e.label.type], bool(e.label.is_terminal),
                       str(e.id) if e.persist_id else ['#', imp.setdefault(('e', e.id), len(imp))], [nk(v) for v in e.nodes]] for e in g.edges()],
            'ext': [nk(v) for v in g.ext]}


def canon_result_hrg(h):
    imp = {}
    return {'start': [h.start.name, [l.name for l in h.start.type]],
            'rules': [[r.lhs.name, [l.name for l in r.lhs.type], canon_result_graph(r.rhs, imp)] for r in h.all_rules()],
            'edge_labels': sorted([l.name, [x.name for x in l.type], bool(l.is_terminal)] for l in h.edge_labels()),
            'node_labels': sorted(l.name for l in h.node_labels())}


def canon_derivation(fgg, d, lhs):
    rules = list(fgg.rules(lhs))
    ri = next(i for i, r in enumerate(rules) if r is d.rule)
    nodes = list(d.rule.rhs.nodes())
    asst = [d.asst[v] if v in d.asst else None for v in nodes]
    kids = [[ei, canon_derivation(fgg, d.children[e], e.label)] for ei, e in enumerate(d.rule.rhs.edges()) if e.label.is_nonterminal and e in d.children]
    return [lhs.name, ri, [repr(a) for a in asst], kids]


# ---------------------------------------------------------------------------------------- weights

def weight_recipes(shape, tier):
    """presentations of one factor's weights: ('tensor', layout) | ('pt', recipe)"""
    out = [('tensor', 'contig')]
    if len(shape) >= 2:
        out.append(('tensor', 'perm'))
    if len(shape) >= 1:
        out.append(('tensor', 'slice'))       # a view at an offset into a larger user-owned storage
    rs = patterns.recipes(tuple(shape), depth=1, max_phys=8, layouts=('contig', 'perm', 'expand'))
    out += [('pt', r) for r in rs]
    return out


def nweight_elems(shape, rec):
    kind, r = rec
    if kind == 'tensor':
        n = math.prod(shape)
        return n + (math.prod(shape[1:]) if r == 'slice' else 0)
    return patterns.nelems(r)


def build_weight(B, shape, rec, elems):
    kind, r = rec
    T = B.torch
    if kind == 'pt':
        return patterns.build(r, elems, B.pyzero, T, B.indices, B.dtype)
    if r == 'contig':
        return B.tensor(elems, shape)
    if r == 'perm':
        return B.tensor(elems, tuple(reversed(shape))).permute(*reversed(range(len(shape))))
    big = B.tensor(elems, (shape[0] + 1,) + tuple(shape[1:]))
    return big[1:]


# ---------------------------------------------------------------------------------------- queries

def q_sum_product(method):
    def f(B, env):
        z = B.fggs.sum_product(env['fgg'], method=method, semiring=B.sr, **env['opts'])
        shape, flat = denote.dense(z)
        return [list(shape)], flat
    return f


def q_sum_products(B, env):
    allv = B.fggs.sum_products(env['fgg'], method='fixed-point', semiring=B.sr, **env['opts'])
    conc, cells = [], []
    for el in sorted(allv, key=lambda el: el.name):
        shape, flat = denote.dense(allv[el])
        conc.append([el.name, list(shape)])
        cells += flat
    return conc, cells


def q_backward(B, env):
    """sum_product followed by back-propagation of an all-ones cotangent"""
    fgg = env['fgg']
    phys = [f._weights.physical for f in fgg.factors.values() if hasattr(f, '_weights')]
    for p in phys:
        p.grad = None
    B.reset_tape()
    z = B.fggs.sum_product(fgg, method='newton', semiring=B.sr, **env['opts'])
    zd = z.to_dense()
    B.backward(zd, B.ones_like(zd))
    conc, cells = [], []
    for k, f in fgg.factors.items():
        if hasattr(f, '_weights'):
            g = f._weights.physical.grad
            if g is None:
                conc.append([k, None])
            else:
                shape, flat = denote.dense_of_tensor(g)
                conc.append([k, list(shape)])
                cells += flat
    for p in phys:
        p.grad = None
    return conc, cells


def q_viterbi(B, env):
    fgg = env['fgg']
    asst = tuple(0 for _ in fgg.start.type)
    d = B.fggs.viterbi(fgg, asst, semiring=B.sr, **env['opts'])
    return canon_derivation(fgg, d, fgg.start), []


def q_factorize_fgg(method):
    def f(B, env):
        g = B.fggs.factorize_fgg(env['fgg'], method=method)
        return canon_result_hrg(g), []
    return f


def q_factorize_hrg(method):
    def f(B, env):
        from fggs import factorize
        g = factorize.factorize_hrg(env['fgg'], method=method)
        return canon_result_hrg(g), []
    return f


def q_factorize_rule(ri, method, with_labels):
    def f(B, env):
        from fggs import factorize
        rules = list(env['fgg'].all_rules())
        r = rules[ri % len(rules)]
        kw = {}
        if with_labels:
            kw['labels'] = set(env['fgg'].edge_labels())          # a fresh set: the documented in/out argument
        new = factorize.factorize_rule(r, method=method, **kw)
        imp = {}
        return [[x.lhs.name, [l.name for l in x.lhs.type], canon_result_graph(x.rhs, imp)] for x in new], []
    return f


def q_hrg_to_json(B, env):
    return json.loads(json.dumps(B.fggs.hrg_to_json(env['fgg']), sort_keys=True)), []


def q_fgg_to_json(B, env):
    j = B.fggs.fgg_to_json(env['fgg'])
    return json.loads(json.dumps(j, sort_keys=True).replace('NaN', '"nan"').replace('-Infinity', '"-inf"').replace('Infinity', '"inf"')), []


def q_conjoin(B, env):
    g = B.fggs.conjoin_hrgs(env['fgg'], env['other'])
    return canon_result_hrg(g), []


def q_derive(B, env):
    fgg = env['fgg']
    asst = tuple(0 for _ in fgg.start.type)
    d = B.fggs.viterbi(fgg, asst, semiring=B.sr, **env['opts'])
    fg, a = d.derive()
    imp = {}
    return [canon_result_graph(fg, imp), sorted([v.label.name, repr(x)] for v, x in a.items())], []


def query_table(case):
    """ordered list of (name, fn) available for a case"""
    kind = case['semiring']
    q = []
    if case.get('weights', True):
        q.append(('sum_product[fixed-point]', q_sum_product('fixed-point')))
        q.append(('sum_product[newton]', q_sum_product('newton')))
        if case.get('linear', True):
            q.append(('sum_product[linear]', q_sum_product('linear')))
        q.append(('sum_products', q_sum_products))
        if kind in ('viterbi',) and case.get('viterbi', True):
            q.append(('viterbi', q_viterbi))
            if case.get('derive'):
                q.append(('viterbi+derive', q_derive))
        if kind in ('real', 'log') and case.get('requires_grad'):
            q.append(('sum_product+backward', q_backward))
        q.append(('factorize_fgg[min_fill]', q_factorize_fgg('min_fill')))
        q.append(('factorize_fgg[acb]', q_factorize_fgg('acb')))
        if case.get('concrete'):
            q.append(('fgg_to_json', q_fgg_to_json))
    else:
        q.append(('factorize_hrg[min_fill]', q_factorize_hrg('min_fill')))
        q.append(('factorize_hrg[quickbb]', q_factorize_hrg('quickbb')))
        q.append(('factorize_hrg[acb]', q_factorize_hrg('acb')))
        nr = len(case['spec']['rules'])
        for ri in range(min(nr, 2)):
            q.append((f'factorize_rule[{ri},min_fill]', q_factorize_rule(ri, 'min_fill', False)))
            q.append((f'factorize_rule[{ri},acb,labels]', q_factorize_rule(ri, 'acb', True)))
        if case.get('conjoin'):
            q.append(('conjoin_hrgs', q_conjoin))
    q.append(('hrg_to_json', q_hrg_to_json))
    return q


# ---------------------------------------------------------------------------------------- histories

def build_env(B, case, recs, elems):
    spec = case['spec']
    shapes = grammars.weight_shapes(spec)
    tensors = None
    if case.get('weights', True):
        tensors = {}
        for name in sorted(shapes):
            w = build_weight(B, shapes[name], recs[name], elems[name])
            if case.get('requires_grad') and B.kind in ('real', 'log'):
                (w.physical if hasattr(w, 'physical') else w).requires_grad_(True)
            tensors[name] = w
    fgg = grammars.build_fgg(spec, B.fggs, tensors, explicit_ids=case.get('explicit_ids', False))
    env = {'fgg': fgg, 'opts': dict(case.get('opts', {})), 'user_tensors': tensors}
    if case.get('conjoin'):
        env['other'] = grammars.build_fgg(case['conjoin'], B.fggs, None, explicit_ids=True)
    env['twin'] = make_twin(B.fggs, fgg)
    return env


def make_twin(fggs, h):
    """an HRG equal (==) to h, assembled through the public API from h's observable parts"""
    t = fggs.HRG(h.start)
    for l in h.node_labels():
        t.add_node_label(l)
    for l in h.edge_labels():
        t.add_edge_label(l)
    for r in h.all_rules():
        t.add_rule(r)
    return t


def snap_env(env):
    s, tensors = snap_hrg(env['fgg'])
    if 'twin' in env:
        # the library's own equality against a twin assembled before the history (sees what the accessors hide, e.g. empty rule lists)
        s['eq_twin'] = [bool(env['fgg'] == env['twin']), bool(env['twin'] == env['fgg'])]
        s['twin_rules'] = [[l.name, len(env['fgg'].rules(l))] for l in sorted(env['fgg'].nonterminals(), key=lambda l: l.name)]
    if 'other' in env:
        s2, _ = snap_hrg(env['other'])
        s = {'fgg': s, 'other': s2}
    # tensors the user handed in (FiniteFactor wraps a plain Tensor into a PatternedTensor that views it)
    for name, w in sorted((env.get('user_tensors') or {}).items()):
        t = w.physical if hasattr(w, 'physical') else w
        st = snap_tensor(t)
        tensors.append(('user:' + name, st.pop('cells')))
        s.setdefault('user_meta', []).append([name, st])
    return s, tensors


def run_history(B, case, recs, elems, history):
    """history: list of query indices.  Returns (problems, items): problems are concrete findings (strings),
    items are (name, lhs_cells, rhs_cells) to be decided by the solver / compared bit-wise"""
    env = build_env(B, case, recs, elems)
    Q = query_table(case)
    s0, t0 = snap_env(env)
    problems, items = [], []
    first = {}
    for step, qi in enumerate(history):
        name, fn = Q[qi]
        try:
            conc, cells = fn(B, env)
        except Exception as e:      # noqa  (a failing query must leave its arguments alone, too, and fail the same way again)
            if B.is_unmodelled(e):
                raise
            conc, cells = ['raised', type(e).__name__], []
        s1, t1 = snap_env(env)
        d = diff_structure(s0, s1)
        items.append((f'structure unchanged by {name} (step {step})', [d is None], [True]))
        if d:
            problems.append(f'{name} (step {step}) changed its argument: {d}')
        if [n for n, _ in t0] != [n for n, _ in t1] or any(len(a) != len(b) for (_, a), (_, b) in zip(t0, t1)):
            problems.append(f'{name} (step {step}) changed the set or size of the weight storages')
        else:
            for (n, a), (_, b) in zip(t0, t1):
                if not all(x is y for x, y in zip(a, b)):
                    items.append((f'storage[{n}] unchanged by {name} (step {step})', a, b))
        if qi in first:
            c0, cells0, step0 = first[qi]
            d = diff_structure(c0, conc)
            items.append((f'{name}: same structural result at step {step} as at step {step0}', [d is None], [True]))
            if d:
                problems.append(f'{name} gave a different result at step {step} than at step {step0}: {d}')
            if len(cells0) != len(cells):
                problems.append(f'{name}: result size differs between step {step0} and step {step}')
            elif not all(x is y for x, y in zip(cells0, cells)):
                items.append((f'{name}: result at step {step} equals result at step {step0}', cells0, cells))
        else:
            first[qi] = (conc, cells, step)
    return problems, items


# ---------------------------------------------------------------------------------------- clones

def _cells_of_pt(x):
    sp = snap_pt(x)
    cells = sp['phys'].pop('cells')
    sp.pop('oid')
    sp['phys'].pop('oid')
    return sp, cells


def run_clone(B, case, elems_per_operand):
    """case: {'op', 'operands': [{'recipe','default','elem'}...], 'mode': 'clone'|'clone_src'|'copy'|'copy_src'}
    mode clone     : c = x.clone();  op(c, u);  x unchanged
         clone_src : c = x.clone();  op(x, u);  c unchanged
         copy      : d.copy_(x);     op(d, u);  x unchanged      (d: a second pattern of the same shape)
         copy_src  : d.copy_(x);     op(x, u);  d unchanged"""
    from oracles import c06_ops, c06_run
    T = B.torch
    op = next(o for o in c06_ops.table(T) if o['name'] == case['op'])
    ops = []
    for spec, elems in zip(case['operands'], elems_per_operand):
        dt = B.dtype_of(spec.get('elem', 'num'))
        ops.append(patterns.build(spec['recipe'], elems, c06_run.py_default(spec['default']), T, B.indices, dt))
    mode = case['mode']
    x = ops[0]
    rest = ops[1:op['n']]
    if mode.startswith('clone'):
        c = x.clone()
    else:
        c = ops[op['n']]
        c.copy_(x)
    watched, target = (x, c) if mode in ('clone', 'copy') else (c, x)
    s0, c0 = _cells_of_pt(watched)
    sh0, d0 = denote.dense(watched)
    others0 = [(_cells_of_pt(u), denote.dense(u)) for u in rest]
    op['pt'](target, *rest)
    s1, c1 = _cells_of_pt(watched)
    sh1, d1 = denote.dense(watched)
    problems, items = [], []
    d = diff_structure(s0, s1)
    if d:
        problems.append(f'{case["op"]} on the {"copy" if watched is x else "source"} changed the structure of the other: {d}')
    if len(c0) != len(c1):
        problems.append('storage size changed')
    else:
        items.append(('storage of the watched tensor unchanged', c0, c1))
    if list(sh0) != list(sh1):
        problems.append('shape changed')
    else:
        items.append(('denotation of the watched tensor unchanged', d0, d1))
    if not op.get('mutates_other'):
        for k, (u, ((su0, cu0), (shu, du0))) in enumerate(zip(rest, others0)):
            su1, cu1 = _cells_of_pt(u)
            if diff_structure(su0, su1):
                problems.append(f'operand {k + 1} structure changed: {diff_structure(su0, su1)}')
            elif len(cu0) == len(cu1):
                items.append((f'operand {k + 1} storage unchanged', cu0, cu1))
    return problems, items


MULTI_STEPS = ['neg_x', 'neg_y', 'copy_from_other', 'iadd_other', 'isub_other', 'maximum_other', 'iadd_then_neg_x', 'copy_then_neg_x', 'copy_then_relu_y',
               'add_single_x', 'imul_x', 'nan_to_num_x', 'del_x_iadd']


def run_multi_clone(B, case, elems):
    """MultiTensor over keys x (shape (2,)) and y (shape ()); `present` says which blocks exist in the source m and in `other`.
    mode 'clone': c = m.clone(); step(c, other); m unchanged.   mode 'clone_src': step(m, other); c unchanged.
    mode 'copy' : c = other'.copy_(m) (destination with its own blocks); step(c); m unchanged.  'copy_src' likewise."""
    from fggs.multi import MultiTensor
    T = B.torch
    shapes = {'x': T.Size((2,)), 'y': T.Size(())}
    zero = B.pyzero

    def mk(present, vals, layout):
        m = MultiTensor(shapes, B.sr)
        if 'x' in present:
            if layout == 'expand':
                ten = B.tensor(vals[:1], ()).expand(2)
            elif layout == 'slice':
                ten = B.tensor([vals[3]] + list(vals[:2]), (3,))[1:]
            else:
                ten = B.tensor(vals[:2], (2,))
            m['x'] = B.indices.PatternedTensor(ten, default=zero)
        if 'y' in present:
            m['y'] = B.indices.PatternedTensor(B.tensor(vals[2:3], ()), default=zero)
        return m
    m = mk(case['present'][0], elems[0], case.get('layout', 'contig'))
    other = mk(case['present'][1], elems[1], 'contig')
    mode = case['mode']
    if mode.startswith('clone'):
        c = m.clone()
    else:
        c = mk(case['present'][2], elems[2], case.get('dst_layout', 'contig'))
        c.copy_(m)
    watched, target = (m, c) if mode in ('clone', 'copy') else (c, m)

    def snap(mt):
        s, cells = {}, []
        for k in sorted(mt):
            sp, cs = _cells_of_pt(mt[k])
            s[k] = sp
            cells.append((k, cs))
        dense = []
        for k in ('x', 'y'):
            dense += denote.dense(mt[k])[1]
        return s, cells, dense
    s0, c0, d0 = snap(watched)
    step = case['step']
    sr = B.sr
    if step == 'neg_x':
        target['x'].neg_() if 'x' in target else None
    elif step == 'neg_y':
        target['y'].neg_() if 'y' in target else None
    elif step == 'copy_from_other':
        target.copy_(other)
    elif step == 'iadd_other':
        target += other
    elif step == 'isub_other':
        if all(k in target for k in other):
            target -= other
    elif step == 'maximum_other':
        target.maximum_(other)
    elif step == 'iadd_then_neg_x':
        target += other
        if 'x' in target:
            target['x'].neg_()
    elif step == 'copy_then_neg_x':
        target.copy_(other)
        if 'x' in target:
            target['x'].neg_()
    elif step == 'copy_then_relu_y':
        target.copy_(other)
        if 'y' in target:
            target['y'].relu_()
    elif step == 'add_single_x':
        if 'x' in other:
            target.add_single('x', other['x'])
            target['x'].neg_()
    elif step == 'imul_x':
        if 'x' in target:
            target['x'] *= 2.0
    elif step == 'nan_to_num_x':
        if 'x' in target:
            target['x'].nan_to_num_(nan=0.0, posinf=1.0, neginf=-1.0)
    elif step == 'del_x_iadd':
        if 'x' in target:
            del target['x']
        target += other
        if 'x' in target and 'x' not in other:
            target['x'].neg_()
    s1, c1, d1 = snap(watched)
    problems, items = [], []
    d = diff_structure(s0, s1)
    if d:
        problems.append(f'{step} on the {"clone" if watched is m else "source"} changed the structure of the other MultiTensor: {d}')
    elif [k for k, _ in c0] == [k for k, _ in c1]:
        for (k, a), (_, b) in zip(c0, c1):
            if len(a) == len(b):
                items.append((f'storage of block {k} unchanged', a, b))
            else:
                problems.append(f'storage size of block {k} changed')
    items.append(('denotation unchanged', d0, d1))
    return problems, items
