"""C06: the operation table.  Each entry maps a PatternedTensor operation to the
torch operation on dense tensors that it must agree with.  Backend-agnostic:
`T` is the torch module in use (model or real)."""
import math

INF = math.inf


def table(T):
    """returns list of dicts: name, n (number of patterned operands), kind ('num'|'bool'|'log'|'nonneg'),
    pt(*ops) -> PatternedTensor|Tensor|python, dense(*tensors) -> Tensor|python, inplace (bool: result is operand 0)"""
    ops = []

    def add(name, n, kind, pt, dense, inplace=False, **kw):
        ops.append(dict(name=name, n=n, kind=kind, pt=pt, dense=dense, inplace=inplace, **kw))

    # ---- binary arithmetic
    add('add', 2, 'num', lambda t, u: t.add(u), lambda a, b: a.add(b))
    add('sub', 2, 'num', lambda t, u: t.sub(u), lambda a, b: a.sub(b))
    add('mul', 2, 'num', lambda t, u: t.mul(u), lambda a, b: a.mul(b), nonlinear=True)
    add('div', 2, 'num', lambda t, u: t.div(u), lambda a, b: a.div(b), nonlinear=True)
    add('maximum', 2, 'num', lambda t, u: t.maximum(u), lambda a, b: a.maximum(b))
    add('logaddexp', 2, 'log', lambda t, u: t.logaddexp(u), lambda a, b: a.logaddexp(b))
    add('logical_and', 2, 'bool', lambda t, u: t.logical_and(u), lambda a, b: a.logical_and(b))
    add('logical_or', 2, 'bool', lambda t, u: t.logical_or(u), lambda a, b: a.logical_or(b))
    for cmp in ('lt', 'le', 'gt', 'ge', 'eq'):
        add(cmp, 2, 'num', (lambda c: lambda t, u: getattr(t, c)(u))(cmp), (lambda c: lambda a, b: getattr(a, c)(b))(cmp))
    add('__add__', 2, 'num', lambda t, u: t + u, lambda a, b: a + b)
    add('__sub__', 2, 'num', lambda t, u: t - u, lambda a, b: a - b)
    add('__mul__', 2, 'num', lambda t, u: t * u, lambda a, b: a * b, nonlinear=True)
    add('__truediv__', 2, 'num', lambda t, u: t / u, lambda a, b: a / b, nonlinear=True)
    add('__imul__', 2, 'num', lambda t, u: t.__imul__(u), lambda a, b: a * b, inplace=True, nonlinear=True)
    add('__itruediv__', 2, 'num', lambda t, u: t.__itruediv__(u), lambda a, b: a / b, inplace=True, nonlinear=True)
    add('copy_', 2, 'num', lambda t, u: (t.copy_(u), t)[1], lambda a, b: b.clone(), inplace=True, replaces_storage=True)
    # a copy is independent of its source: a later in-place operation on either must not show through
    add('copy_then_neg_dst', 2, 'num', lambda t, u: (t.copy_(u), t.neg_(), t)[2], lambda a, b: b.neg(), inplace=True, replaces_storage=True)
    add('copy_then_neg_src', 2, 'num', lambda t, u: (t.copy_(u), u.neg_(), t)[2], lambda a, b: b.clone(), inplace=True, replaces_storage=True, mutates_other=True)
    add('clone_then_neg', 1, 'num', lambda t: (lambda c: (c.neg_(), t)[1])(t.clone()), lambda a: a)
    add('clone_then_neg_src', 1, 'num', lambda t: (lambda c: (t.neg_(), c)[1])(t.clone()), lambda a: a.clone(), mutates_self=True)
    # ---- with scalars
    for c in (0.0, 2.0, -1.5, INF):
        add(f'add_scalar[{c}]', 1, 'num', (lambda c: lambda t: t.add(c))(c), (lambda c: lambda a: a + c)(c))
        add(f'sub_scalar[{c}]', 1, 'num', (lambda c: lambda t: t.sub(c))(c), (lambda c: lambda a: a - c)(c))
        add(f'mul_scalar[{c}]', 1, 'num', (lambda c: lambda t: t.mul(c))(c), (lambda c: lambda a: a * c)(c))
        add(f'imul_scalar[{c}]', 1, 'num', (lambda c: lambda t: t.__imul__(c))(c), (lambda c: lambda a: a * c)(c), inplace=True)
        for cmp in ('lt', 'le', 'gt', 'ge', 'eq'):
            add(f'{cmp}_scalar[{c}]', 1, 'num', (lambda c, m: lambda t: getattr(t, m)(c))(c, cmp), (lambda c, m: lambda a: getattr(a, m)(c))(c, cmp))
    for c in (2.0, -1.5, INF, 0.0):
        add(f'div_scalar[{c}]', 1, 'num', (lambda c: lambda t: t.div(c))(c), (lambda c: lambda a: a / c)(c))
        add(f'itruediv_scalar[{c}]', 1, 'num', (lambda c: lambda t: t.__itruediv__(c))(c), (lambda c: lambda a: a / c)(c), inplace=True)
    # ---- unary maps
    add('abs', 1, 'num', lambda t: t.abs(), lambda a: a.abs())
    add('abs_', 1, 'num', lambda t: t.abs_(), lambda a: a.abs(), inplace=True)
    add('neg_', 1, 'num', lambda t: t.neg_(), lambda a: a.neg(), inplace=True)
    add('relu_', 1, 'num', lambda t: t.relu_(), lambda a: a.relu(), inplace=True)
    add('nan_to_num_', 1, 'num', lambda t: t.nan_to_num_(), lambda a: a.nan_to_num(), inplace=True)
    add('nan_to_num_[args]', 1, 'num', lambda t: t.nan_to_num_(nan=-INF, posinf=INF, neginf=-INF), lambda a: a.nan_to_num(nan=-INF, posinf=INF, neginf=-INF), inplace=True)
    add('nan_to_num_[real]', 1, 'num', lambda t: t.nan_to_num_(nan=0., posinf=INF), lambda a: a.nan_to_num(nan=0., posinf=INF), inplace=True)
    add('clamp_min', 1, 'num', lambda t: t.clamp_min(0.5), lambda a: a.clamp_min(0.5))
    add('clamp_max', 1, 'num', lambda t: t.clamp_max(0.5), lambda a: a.clamp_max(0.5))
    add('exp', 1, 'log', lambda t: t.exp(), lambda a: a.exp())
    add('expm1', 1, 'log', lambda t: t.expm1(), lambda a: a.expm1())
    add('log', 1, 'nonneg', lambda t: t.log(), lambda a: a.log())
    add('log_', 1, 'nonneg', lambda t: t.log_(), lambda a: a.log(), inplace=True)
    add('log1p_', 1, 'nonneg', lambda t: t.log1p_(), lambda a: a.log1p(), inplace=True)
    add('logical_not', 1, 'bool', lambda t: t.logical_not(), lambda a: a.logical_not())
    add('to_bool', 1, 'num', lambda t: t.to(T.bool), lambda a: a.to(T.bool))
    add('to_float_from_bool', 1, 'bool', lambda t: t.to(T.float32), lambda a: a.to(T.float32))
    # ---- reductions along a dimension
    for d in (0, -1):
        add(f'any[{d}]', 1, 'bool', (lambda d: lambda t: t.any(d))(d), (lambda d: lambda a: a.any(d))(d), mindim=1)
        add(f'any_keepdim[{d}]', 1, 'bool', (lambda d: lambda t: t.any(d, keepdim=True))(d), (lambda d: lambda a: a.any(d, keepdim=True))(d), mindim=1)
        add(f'log_softmax[{d}]', 1, 'log', (lambda d: lambda t: t.log_softmax(d))(d), (lambda d: lambda a: a.log_softmax(d))(d), mindim=1, nonlinear=True)
        add(f'norm1[{d}]', 1, 'num', (lambda d: lambda t: t.norm(1, d))(d), (lambda d: lambda a: a.norm(1, d))(d), mindim=1)
    # ---- structure
    add('dim_to_dense[0]', 1, 'num', lambda t: t.dim_to_dense(0), lambda a: a, mindim=1)
    add('dim_to_dense[last]', 1, 'num', lambda t: t.dim_to_dense(t.ndim - 1), lambda a: a, mindim=1)
    add('to_dense', 1, 'num', lambda t: t.to_dense(), lambda a: a)
    add('clone', 1, 'num', lambda t: t.clone(), lambda a: a, other_unchanged=True)
    add('detach', 1, 'num', lambda t: t.detach(), lambda a: a)
    add('freshen', 1, 'num', lambda t: t.freshen(), lambda a: a)
    add('T', 1, 'num', lambda t: t.T, lambda a: a.permute(*reversed(range(a.dim()))))
    add('t', 1, 'num', lambda t: t.t(), lambda a: a.t(), maxdim=2)
    add('transpose01', 1, 'num', lambda t: t.transpose(0, 1), lambda a: a.transpose(0, 1), mindim=2)
    add('transpose10', 1, 'num', lambda t: t.transpose(1, 0), lambda a: a.transpose(1, 0), mindim=2)
    add('permute_rev', 1, 'num', lambda t: t.permute(list(reversed(range(t.ndim)))), lambda a: a.permute(*reversed(range(a.dim()))))
    add('flatten', 1, 'num', lambda t: t.flatten(), lambda a: a.flatten(), mindim=1)
    add('unsqueeze0', 1, 'num', lambda t: t.unsqueeze(0), lambda a: a.unsqueeze(0))
    add('unsqueeze-1', 1, 'num', lambda t: t.unsqueeze(-1), lambda a: a.unsqueeze(-1))
    add('expand_front', 1, 'num', lambda t: t.expand(2, *t.size()), lambda a: a.expand(2, *a.size()))
    add('repeat_front', 1, 'num', lambda t: t.repeat(2, *t.size()), lambda a: a.expand(2, *a.size()).clone())
    add('default_to[0]', 1, 'num', lambda t: t.default_to(0.), lambda a: a)
    add('default_to[inf]', 1, 'num', lambda t: t.default_to(INF), lambda a: a)
    add('getitem0', 1, 'num', lambda t: t[0], lambda a: a[0], mindim=1)
    add('getitem_last', 1, 'num', lambda t: t[t.size()[0] - 1], lambda a: a[a.size()[0] - 1], mindim=1)
    add('getitem_full', 1, 'num', lambda t: t[tuple(n - 1 for n in t.size())], lambda a: a[tuple(n - 1 for n in a.size())], mindim=1)
    add('iter', 1, 'num', lambda t: T.stack([x.to_dense() for x in t]) if len(t) else t.to_dense(), lambda a: a, mindim=1)
    add('tolist', 1, 'num', lambda t: t.tolist(), lambda a: a.tolist(), concrete=True)
    add('len', 1, 'num', lambda t: len(t), lambda a: len(a), mindim=1, concrete=True)
    add('stack0', 2, 'num', lambda t, u: stack_(T, t, u, 0), lambda a, b: T.stack([a, b], 0), same_default=True, no_nan_default=True)
    add('stack-1', 2, 'num', lambda t, u: stack_(T, t, u, -1), lambda a, b: T.stack([a, b], a.dim()), same_default=True, no_nan_default=True)
    add('stack_single', 1, 'num', lambda t: stack1_(T, t), lambda a: a.unsqueeze(0))
    add('where', 3, 'where', lambda t, c, u: t.where(c, u), lambda a, c, b: a.where(c, b))
    # ---- short compositions: a structural operation followed by a second operation on its (patterned) result
    byname = {o['name']: o for o in ops}
    firsts = ['T', 'transpose01', 'permute_rev', 'unsqueeze0', 'unsqueeze-1', 'expand_front', 'default_to[inf]', 'getitem0', 'flatten', 'clone', 'dim_to_dense[0]', 'freshen', 'neg_', 'add_scalar[2.0]']
    seconds = ['add_scalar[2.0]', 'mul_scalar[-1.5]', 'abs', 'relu_', 'nan_to_num_', 'clamp_min', 'lt_scalar[0.0]', 'norm1[0]', 'to_dense', 'flatten', 'T', 'unsqueeze0', 'getitem0',
               'getitem_last', 'iter', 'dim_to_dense[last]', 'default_to[0]', 'expand_front', 'neg_', 'clone', 'to_bool']
    drops = {'getitem0': 1}
    for fa in firsts:
        for fb in seconds:
            A, Bo = byname[fa], byname[fb]
            if A['kind'] != 'num' or Bo['kind'] != 'num' or fa == fb:
                continue
            if Bo['inplace'] and fa != 'clone':
                continue        # an in-place operation on a derived tensor may meet a stride-0 physical tensor (torch refuses such writes): outside the claim

            mind = max(A.get('mindim', 0), Bo.get('mindim', 0) + drops.get(fa, 0))
            if fa == 'flatten':
                mind = max(mind, 1)
            ops.append(dict(name=f'{fa}>>{fb}', n=1, kind='num', inplace=False, mutates_self=bool(A['inplace'] or Bo['inplace']), composed=True,
                            pt=(lambda A, Bo: lambda t: Bo['pt'](A['pt'](t)))(A, Bo), dense=(lambda A, Bo: lambda a: Bo['dense'](A['dense'](a)))(A, Bo),
                            mindim=mind, maxdim=min(A.get('maxdim', 99), 99), nonlinear=bool(A.get('nonlinear') or Bo.get('nonlinear'))))
    return ops


def stack_(T, t, u, dim):
    from fggs.indices import stack
    return stack([t, u], dim if dim >= 0 else t.ndim)


def stack1_(T, t):
    from fggs.indices import stack
    return stack([t], 0)


# reshape targets: merges of adjacent dimensions and insertion/removal of size-1 dimensions
def reshape_targets(shape):
    """(target, must_succeed)"""
    out = []
    n = 1
    for s in shape:
        n *= s
    out.append(((n,), True))
    out.append(((-1,), True))
    if len(shape) >= 2:
        out.append(((shape[0] * shape[1],) + tuple(shape[2:]), True))
        out.append((tuple(shape[:-2]) + (shape[-2] * shape[-1],), True))
    out.append(((1,) + tuple(shape), True))
    out.append((tuple(shape) + (1,), True))
    out.append((tuple(s for s in shape if s != 1), True))
    # splits: need not succeed for a view, but if they do they must be right
    for i, s in enumerate(shape):
        for a in range(2, s):
            if s % a == 0:
                out.append((tuple(shape[:i]) + (a, s // a) + tuple(shape[i + 1:]), False))
    if len(shape) == 2:
        out.append(((shape[1], shape[0]), False))
    return out
