"""C19: concrete execution of the real scc / nonterminal_graph on a decoded case
plus the oracle comparison.  Shared by the symbolic harness (python3-vt, on each
explored path) and by the replayer (/venv/bin/python, real interpreter)."""
from oracles.graphs import check_scc


def run_scc(n, edges, key_order, rev):
    """edges: list of [i,j]; key_order: permutation of range(n) = dict insertion
    order; rev[i]: neighbour list of i inserted in decreasing order"""
    from fggs.utils import scc
    adj = {(i, j) for i, j in edges}
    g = {}
    for i in key_order:
        nb = [j for j in range(n) if (i, j) in adj]
        if rev[i]:
            nb.reverse()
        g[i] = {j: None for j in nb}
    snapshot = {i: list(g[i]) for i in g}
    comps = scc(g)
    if {i: list(g[i]) for i in g} != snapshot:
        return 'scc mutated its argument'
    return check_scc(n, adj, [list(c) for c in comps])


NTS = ['S', 'X', 'Y']


def build_hrg(spec):
    """spec: {'start': name, 'rules': [[lhs, [label,...]], ...], 'declared': [names]}
    labels are nonterminal names from NTS or 't' (terminal); all arity 0"""
    import fggs
    h = fggs.HRG(spec['start'])
    for name in spec.get('declared', []):
        h.add_edge_label(fggs.EdgeLabel(name, [], is_nonterminal=True))
    for lhs, labels in spec['rules']:
        g = fggs.Graph()
        for l in labels:
            g.new_edge(l, [], is_terminal=(l == 't'), is_nonterminal=(l != 't'))
        h.new_rule(lhs, g)
    return h


def expected_ntgraph(spec):
    names = {spec['start']} | set(spec.get('declared', []))
    want = {}
    for lhs, labels in spec['rules']:
        names.add(lhs)
        for l in labels:
            if l != 't':
                names.add(l)
    for nme in names:
        want[nme] = set()
    for lhs, labels in spec['rules']:
        for l in labels:
            if l != 't':
                want[lhs].add(l)
    return want


def run_ntgraph_history(spec, mutation):
    """query, mutate the same HRG object through its public API, query again (the dependency
    graph must reflect the grammar as it is at the time of the call)"""
    import fggs
    from fggs.utils import nonterminal_graph, scc
    h = build_hrg(spec)
    g0 = nonterminal_graph(h)
    spec2 = {'start': spec['start'], 'rules': [[l, list(ls)] for l, ls in spec['rules']], 'declared': list(spec.get('declared', []))}
    kind = mutation[0]
    if kind == 'add_rule':
        gph = fggs.Graph()
        gph.new_edge(mutation[2], [], is_nonterminal=True)
        h.new_rule(mutation[1], gph)
        spec2['rules'].append([mutation[1], [mutation[2]]])
    elif kind == 'rhs_add_edge':
        rules = h.all_rules()
        if not rules:
            return None
        r = rules[mutation[1] % len(rules)]
        r.rhs.new_edge(mutation[2], [], is_nonterminal=True)
        h.add_edge_label(fggs.EdgeLabel(mutation[2], [], is_nonterminal=True))
        spec2['rules'][mutation[1] % len(rules)][1].append(mutation[2])
        spec2['declared'].append(mutation[2])
    elif kind == 'set_start':
        h.start = mutation[1]
        spec2['start'] = mutation[1]
        spec2['declared'].append(spec['start'])
    elif kind == 'add_label':
        h.add_edge_label(fggs.EdgeLabel(mutation[1], [], is_nonterminal=True))
        spec2['declared'].append(mutation[1])
    g1 = nonterminal_graph(h)
    got = {k.name: {y.name for y in v} for k, v in g1.items()}
    want = expected_ntgraph(spec2)
    if got != want:
        return f'after {mutation}: nonterminal_graph = {got}, expected {want}'
    comps = scc(g1)
    seen = [x.name for c in comps for x in c]
    if sorted(seen) != sorted(want):
        return f'after {mutation}: scc components {seen} do not cover nonterminals {sorted(want)}'
    return None


def run_ntgraph(spec):
    from fggs.utils import nonterminal_graph
    h = build_hrg(spec)
    g = nonterminal_graph(h)
    names = {spec['start']} | set(spec.get('declared', []))
    want = {}
    for lhs, labels in spec['rules']:
        names.add(lhs)
        for l in labels:
            if l != 't':
                names.add(l)
    for nme in names:
        want[nme] = set()
    for lhs, labels in spec['rules']:
        for l in labels:
            if l != 't':
                want[lhs].add(l)
    got = {k.name: {y.name for y in v} for k, v in g.items()}
    if any(not k.is_nonterminal for k in g) or any(not y.is_nonterminal for v in g.values() for y in v):
        return 'terminal in nonterminal_graph'
    if got != want:
        return f'nonterminal_graph = {got}, expected {want}'
    return None
