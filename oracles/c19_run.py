"""C19: concrete execution of the real scc / nonterminal_graph on a decoded case
plus the oracle comparison.  Shared by the symbolic harness (python3-vt, on each
explored path) and by the replayer (/venv/bin/python, real interpreter)."""
from oracles.graphs import check_scc


def run_scc(n, edges, key_order, rev):
    """edges: list of [i,j]; key_order: permutation of range(n) = dict insertion
    order; rev[i]: neighbour list of i inserted in decreasing order"""
    from fggs.utils import scc
    adj = {(i, j) for i, j in edges}
    g = {}
    for i in key_order:
        nb = [j for j in range(n) if (i, j) in adj]
        if rev[i]:
            nb.reverse()
        g[i] = {j: None for j in nb}
    snapshot = {i: list(g[i]) for i in g}
    comps = scc(g)
    if {i: list(g[i]) for i in g} != snapshot:
        return 'scc mutated its argument'
    return check_scc(n, adj, [list(c) for c in comps])


NTS = ['S', 'X', 'Y']


def build_hrg(spec):
    """spec: {'start': name, 'rules': [[lhs, [label,...]], ...], 'declared': [names]}
    labels are nonterminal names from NTS or 't' (terminal); all arity 0"""
    import fggs
    h = fggs.HRG(spec['start'])
    for name in spec.get('declared', []):
        h.add_edge_label(fggs.EdgeLabel(name, [], is_nonterminal=True))
    for lhs, labels in spec['rules']:
        g = fggs.Graph()
        for l in labels:
            g.new_edge(l, [], is_terminal=(l == 't'), is_nonterminal=(l != 't'))
        h.new_rule(lhs, g)
    return h


def run_ntgraph(spec):
    from fggs.utils import nonterminal_graph
    h = build_hrg(spec)
    g = nonterminal_graph(h)
    names = {spec['start']} | set(spec.get('declared', []))
    want = {}
    for lhs, labels in spec['rules']:
        names.add(lhs)
        for l in labels:
            if l != 't':
                names.add(l)
    for nme in names:
        want[nme] = set()
    for lhs, labels in spec['rules']:
        for l in labels:
            if l != 't':
                want[lhs].add(l)
    got = {k.name: {y.name for y in v} for k, v in g.items()}
    if any(not k.is_nonterminal for k in g) or any(not y.is_nonterminal for v in g.values() for y in v):
        return 'terminal in nonterminal_graph'
    if got != want:
        return f'nonterminal_graph = {got}, expected {want}'
    return None
