"""C15: hyperedge replacement is typed, fresh and order-independent (shared by harness and replayer)."""
import itertools

LABELS = ['L', 'M']


def build_graph(fggs, spec, tag):
    """spec: {'nodes': [label idx], 'edges': [[name, [node idx], nonterminal?]], 'ext': [node idx]}"""
    g = fggs.Graph()
    ns = [fggs.Node(fggs.NodeLabel(LABELS[l]), id=f'{tag}v{i}') for i, l in enumerate(spec['nodes'])]
    for v in ns:
        g.add_node(v)
    es = []
    for k, (name, att, nt) in enumerate(spec['edges']):
        if name != 'X' and len(name) == 1:
            name = name + '_' + ''.join(LABELS[spec['nodes'][i]] for i in att)      # one label per (name, type): no name clashes
        e = fggs.Edge(fggs.EdgeLabel(name, [ns[i].label for i in att], is_nonterminal=bool(nt), is_terminal=not nt), [ns[i] for i in att], id=f'{tag}e{k}')
        g.add_edge(e)
        es.append(e)
    g.ext = [ns[i] for i in spec['ext']]
    return g, ns, es


def snapshot(g):
    return (tuple((v.id, v.label.name) for v in g.nodes()), tuple((e.id, e.label.name, tuple(v.id for v in e.nodes)) for e in g.edges()),
            tuple(v.id for v in g.ext))


def check_replace(fggs, host, repl, which):
    """replace host edge number `which` by the graph `repl`; returns problems"""
    g, gn, ge = build_graph(fggs, host, 'h')
    r, rn, re_ = build_graph(fggs, repl, 'r')
    edge = ge[which]
    before = snapshot(g)
    rbefore = snapshot(r)
    well_typed = tuple(l.name for l in edge.label.type) == tuple(v.label.name for v in r.ext)
    try:
        node_map, edge_map = fggs.replace_edge(g, edge, r)
    except ValueError:
        if well_typed:
            return ['well-typed replacement rejected with ValueError']
        if snapshot(g) != before:
            return ['replacement of the wrong type raised ValueError but changed the host graph']
        return []
    p = []
    if not well_typed:
        p.append('replacement of the wrong type was accepted')
        return p
    if snapshot(r) != rbefore:
        p.append('the replacement graph was modified')
    if any(e.id == edge.id for e in g.edges()):
        p.append('the replaced edge is still in the graph')
    old_edges = {e.id for e in ge if e is not edge}
    if not old_edges <= {e.id for e in g.edges()}:
        p.append('another host edge disappeared')
    for e in ge:
        if e is not edge:
            now = [x for x in g.edges() if x.id == e.id]
            if now and (now[0].label != e.label or tuple(v.id for v in now[0].nodes) != tuple(v.id for v in e.nodes)):
                p.append('another host edge was changed')
    if tuple(v.id for v in g.ext) != before[2]:
        p.append('external nodes of the host changed')
    host_ids = {v.id for v in gn}
    if not host_ids <= {v.id for v in g.nodes()}:
        p.append('a host node disappeared')
    # externals identified with the attachment nodes in order
    for gv, rv in zip(edge.nodes, r.ext):
        if node_map.get(rv) is not gv and node_map.get(rv) != gv:
            p.append('external node of the replacement not identified with the attachment node at the same position')
    internal = [v for v in rn if v not in set(r.ext)]
    fresh = [node_map.get(v) for v in internal]
    if any(x is None for x in fresh):
        p.append('an internal node of the replacement has no image')
    else:
        ids = [x.id for x in fresh]
        if len(set(ids)) != len(ids) or set(ids) & host_ids or set(ids) & {v.id for v in rn}:
            p.append('internal nodes of the replacement did not get fresh distinct ids')
        for v, x in zip(internal, fresh):
            if x.label != v.label:
                p.append('label of a copied node changed')
            if not any(x is y or x == y for y in g.nodes()):
                p.append('copied node is not in the graph')
    if len(g.nodes()) != len(gn) + len(internal):
        p.append(f'host has {len(g.nodes())} nodes after replacement, expected {len(gn) + len(internal)}')
    if len(g.edges()) != len(ge) - 1 + len(re_):
        p.append(f'host has {len(g.edges())} edges after replacement, expected {len(ge) - 1 + len(re_)}')
    new_ids = []
    for e in re_:
        x = edge_map.get(e)
        if x is None:
            p.append('an edge of the replacement has no image')
            continue
        new_ids.append(x.id)
        if x.label != e.label:
            p.append('label of a copied edge changed')
        if tuple(node_map[v].id for v in e.nodes) != tuple(v.id for v in x.nodes):
            p.append('attachment of a copied edge is not the image of the original attachment (order?)')
        if not any(x is y for y in g.edges()):
            p.append('copied edge is not in the graph')
    if len(set(new_ids)) != len(new_ids) or set(new_ids) & {e.id for e in ge} or set(new_ids) & {e.id for e in re_}:
        p.append('copied edges did not get fresh distinct ids')
    return p


# ---------------------------------------------------------------- derivations in any order

def canon(g):
    """canonical form of a small graph up to isomorphism (labels, ext order, attachment order)"""
    nodes = list(g.nodes())
    best = None
    ext = list(g.ext)
    rest = [v for v in nodes if v not in ext]
    # external nodes are fixed by position; permute the rest within label classes
    for perm in itertools.permutations(rest):
        order = {v: i for i, v in enumerate(list(dict.fromkeys(ext)) + list(perm))}
        key = (tuple(v.label.name for v in sorted(order, key=order.get)),
               tuple(sorted((e.label.name, e.label.is_terminal, tuple(order[v] for v in e.nodes)) for e in g.edges())),
               tuple(order[v] for v in ext))
        if best is None or key < best:
            best = key
    return best


def apply_schedule(fggs, hrg, tree, pick):
    """tree: nested [rule index, [children trees in the order of the rule's nonterminal edges]];
    pick(n) -> index in range(n): which pending nonterminal edge is rewritten next"""
    g = fggs.start_graph(hrg)
    rules = hrg.all_rules()
    pending = [(list(g.edges())[0], tree)]
    steps = 0
    while pending:
        i = pick(len(pending))
        edge, t = pending.pop(i)
        rule = rules[t[0]]
        node_map, edge_map = fggs.replace_edge(g, edge, rule.rhs)
        nts = [e for e in rule.rhs.edges() if e.label.is_nonterminal]
        for e, sub in zip(nts, t[1]):
            pending.append((edge_map[e], sub))
        steps += 1
    return g
