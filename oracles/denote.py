"""Independent reading of the axis language (module docstring of fggs/indices.py):
the dense tensor a PatternedTensor denotes, as a dict {virtual index tuple: element}
plus default for the rest.  Never calls to_dense/project/stride of the code under test."""
import itertools


def _isinst(e, name):
    return type(e).__name__ == name


def axis_numel(e):
    if _isinst(e, 'PhysicalAxis'):
        return e._numel
    if _isinst(e, 'ProductAxis'):
        n = 1
        for f in e.factors:
            n *= axis_numel(f)
        return n
    if _isinst(e, 'SumAxis'):
        return e.before + axis_numel(e.term) + e.after
    raise TypeError(e)


def axis_value(e, env):
    """virtual index denoted by axis expression e under physical indices env"""
    if _isinst(e, 'PhysicalAxis'):
        return env[e]
    if _isinst(e, 'ProductAxis'):
        v = 0
        for f in e.factors:
            v = v * axis_numel(f) + axis_value(f, env)
        return v
    if _isinst(e, 'SumAxis'):
        return e.before + axis_value(e.term, env)
    raise TypeError(e)


def shape_of(t):
    return tuple(axis_numel(e) for e in t.vaxes)


def denote(t):
    """returns (shape, cells, default, problems): cells maps each physically backed virtual
    index to its element; problems lists violations of the representation invariant"""
    problems = []
    paxes = list(t.paxes)
    phys = t.physical
    psize = tuple(phys.size())
    if tuple(k._numel for k in paxes) != psize:
        problems.append(f'physical size {psize} != paxes sizes {tuple(k._numel for k in paxes)}')
    if len(set(map(id, paxes))) != len(paxes):
        problems.append('paxes not distinct')
    if any(k._numel == 1 for k in paxes):
        problems.append('physical axis of size 1')
    free = set()

    def fv(e):
        if _isinst(e, 'PhysicalAxis'):
            free.add(e)
        elif _isinst(e, 'ProductAxis'):
            for f in e.factors:
                fv(f)
        elif _isinst(e, 'SumAxis'):
            fv(e.term)
    for e in t.vaxes:
        fv(e)
    if free != set(paxes):
        problems.append('free axes of vaxes differ from paxes')
        return shape_of(t), {}, t.default, problems
    cells = {}
    for pix in itertools.product(*[range(n) for n in psize]):
        env = dict(zip(paxes, pix))
        vix = tuple(axis_value(e, env) for e in t.vaxes)
        if vix in cells:
            problems.append(f'virtual element {vix} backed by more than one physical element')
        cells[vix] = _get(phys, pix)
    shape = shape_of(t)
    for vix in cells:
        if any(not (0 <= i < n) for i, n in zip(vix, shape)):
            problems.append(f'virtual index {vix} out of range {shape}')
    return shape, cells, t.default, problems


def _get(phys, pix):
    if hasattr(phys, '_get'):
        return phys._get(pix)
    return phys[pix].item()


def dense(t):
    """flat list of elements in row-major order + shape"""
    shape, cells, default, problems = denote(t)
    if problems:
        raise AssertionError('; '.join(problems))
    return shape, [cells.get(ix, default) for ix in itertools.product(*[range(n) for n in shape])]


def dense_of_tensor(x):
    """row-major element list of a plain tensor"""
    shape = tuple(x.size())
    if hasattr(x, '_get'):
        return shape, [x._get(ix) for ix in itertools.product(*[range(n) for n in shape])]
    return shape, [x[ix].item() for ix in itertools.product(*[range(n) for n in shape])]
