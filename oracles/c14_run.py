"""C14: JSON serialisation round-trips grammars and weights (shared by harness and replayer)."""
import itertools
import json
import math

IDPOOL = ['a', 'b', '10', '9', 'A', '']


def build_hrg(fggs, spec, implicit_ids):
    """spec: {'rules': [{'nodes': [[label, idref]], 'edges': [[name, [node idx], nonterminal?, idref]], 'ext': [node idx]}]}
    idref: index into IDPOOL or None (implicit).  implicit_ids: list of ints handed out by the id() stub, in creation order."""
    it = iter(implicit_ids)
    orig = fggs.fggs._id
    fggs.fggs._id = lambda obj: next(it)
    try:
        labs = {}
        rules = []
        for r in spec['rules']:
            g = fggs.Graph()
            ns = [fggs.Node(fggs.NodeLabel(l), id=(IDPOOL[i] if i is not None else None)) for l, i in r['nodes']]
            for v in ns:
                g.add_node(v)
            for name, att, nt, i in r['edges']:
                el = fggs.EdgeLabel(name, [ns[k].label for k in att], is_nonterminal=bool(nt), is_terminal=not nt)
                g.add_edge(fggs.Edge(el, [ns[k] for k in att], id=(IDPOOL[i] if i is not None else None)))
            g.ext = [ns[k] for k in r['ext']]
            rules.append((fggs.EdgeLabel('S', [v.label for v in g.ext], is_nonterminal=True), g))
        h = fggs.HRG(rules[0][0])
        for lhs, g in rules:
            h.add_rule(fggs.HRGRule(lhs, g))
    finally:
        fggs.fggs._id = orig
    return h


def rule_shape(r, by_position):
    """structure of a rule with nodes named by their position in `by_position` order"""
    pos = {v: i for i, v in enumerate(by_position)}
    return (tuple(v.label.name for v in by_position),
            tuple(sorted((e.label.name, e.label.is_terminal, tuple(pos[v] for v in e.nodes), e.id if e.persist_id else None) for e in r.rhs.edges())),
            tuple(pos[v] for v in r.rhs.ext),
            tuple(v.id if v.persist_id else None for v in by_position))


def check_hrg_roundtrip(fggs, spec, implicit_ids):
    h = build_hrg(fggs, spec, implicit_ids)
    p = []
    j = fggs.hrg_to_json(h)
    try:
        s = json.dumps(j)
    except (TypeError, ValueError) as e:
        return [f'json.dumps rejects the output of hrg_to_json: {e}']
    h2 = fggs.json_to_hrg(json.loads(s))
    if h2.start != h.start:
        p.append('start symbol changed')
    if {(l.name, tuple(x.name for x in l.type), l.is_terminal) for l in h.edge_labels()} != {(l.name, tuple(x.name for x in l.type), l.is_terminal) for l in h2.edge_labels()}:
        p.append('edge labels changed')
    r1, r2 = h.all_rules(), h2.all_rules()
    if len(r1) != len(r2):
        return p + ['number of rules changed']
    for a, b in zip(r1, r2):
        if a.lhs != b.lhs:
            p.append('left-hand side changed')
        # nodes are written sorted by str(id) and read back in that order
        na = sorted(a.rhs.nodes(), key=lambda v: str(v.id))
        nb = list(b.rhs.nodes())
        if len(na) != len(nb):
            p.append('number of nodes changed')
            continue
        if rule_shape(a, na) != rule_shape(b, nb):
            p.append(f'rule is not reproduced up to renaming of implicit ids: {rule_shape(a, na)} -> {rule_shape(b, nb)}')
    allexplicit = all(i is not None for r in spec['rules'] for _, i in r['nodes']) and all(e[3] is not None for r in spec['rules'] for e in r['edges'])
    if allexplicit:
        j2 = fggs.hrg_to_json(h2)
        if j2 != j:
            p.append('second round trip does not reproduce the JSON verbatim although all ids are explicit')
    return p


def check_reject(fggs, nnodes, att, ext):
    """out-of-range (incl. negative) attachment / external numbers must raise ValueError"""
    j = {'terminals': {'t': {'type': ['L'] * len(att)}}, 'nonterminals': {'S': {'type': ['L'] * len(ext)}}, 'start': 'S',
         'rules': [{'lhs': 'S', 'rhs': {'nodes': [{'label': 'L'} for _ in range(nnodes)],
                                        'edges': [{'attachments': list(att), 'label': 't'}], 'externals': list(ext)}}]}
    bad = any(not (0 <= a < nnodes) for a in list(att) + list(ext))
    try:
        fggs.json_to_hrg(j)
        raised = False
    except ValueError:
        raised = True
    if bad and not raised:
        return [f'attachments {list(att)} / externals {list(ext)} with {nnodes} nodes accepted (out of range)']
    if not bad and raised:
        return [f'valid node numbers {list(att)} / {list(ext)} with {nnodes} nodes rejected']
    return []


# ---------------------------------------------------------------- patterned weight specifications

def spec_numel(v, psizes):
    if isinstance(v, list):
        n = 1
        for x in v:
            n *= spec_numel(x, psizes)
        return n
    if isinstance(v, dict):
        return v['before'] + spec_numel(v['term'], psizes) + v['after']
    return psizes[v]


def spec_value(v, env, psizes):
    if isinstance(v, list):
        x = 0
        for f in v:
            x = x * spec_numel(f, psizes) + spec_value(f, env, psizes)
        return x
    if isinstance(v, dict):
        return v['before'] + spec_value(v['term'], env, psizes)
    return env[v]


def described_tensor(wspec, elems):
    """the dense tensor a patterned weight specification describes: dict index -> element, shape, default.
    elems: flat list of the entries of wspec['physical'] in row-major order"""
    pshape = wspec['pshape']
    expand = wspec.get('expand') or []
    psizes = list(expand) + list(pshape)
    vaxes = wspec.get('vaxes')
    default = wspec.get('default', 0.)
    if vaxes is None:
        vaxes = list(range(len(psizes)))
    shape = tuple(spec_numel(v, psizes) for v in vaxes)
    cells = {}
    idx = list(itertools.product(*[range(n) for n in pshape]))
    for pix in itertools.product(*[range(n) for n in psizes]):
        env = list(pix)
        inner = pix[len(expand):]
        val = elems[idx.index(tuple(inner))] if idx else elems[0]
        vix = tuple(spec_value(v, env, psizes) for v in vaxes)
        cells[vix] = val
    return shape, cells, default


def nest(flat, shape):
    if not shape:
        return flat[0]
    n = math.prod(shape[1:])
    return [nest(flat[i * n:(i + 1) * n], shape[1:]) for i in range(shape[0])]
