"""C12 runner (backend-agnostic): two presentations of one grammar give the same results."""
import itertools
import math
from oracles import denote
from gen import grammars, presentations


def run(B, case, weights_flat, cot=None):
    spec = case['spec']
    choice = case['choice']
    vp = presentations.value_perm(spec, choice)
    spec2, ren = presentations.present(spec, choice)
    shapes = grammars.weight_shapes(spec)
    w2 = {ren(n): presentations.permute_flat(weights_flat[n], spec['terminals'][n], vp) for n in shapes}
    res = []
    grads = []
    for sp, wf, explicit in ((spec, weights_flat, False), (spec2, w2, choice.get('explicit_ids', False))):
        sh = grammars.weight_shapes(sp)
        tensors = {}
        for name, shape in sh.items():
            t = B.tensor(wf[name], shape)
            if cot is not None:
                t.requires_grad_(True)
            tensors[name] = t
        fgg = grammars.build_fgg(sp, B.fggs, tensors, explicit_ids=explicit)
        if cot is not None:
            B.reset_tape()
        z = B.fggs.sum_product(fgg, method=case['method'], semiring=B.sr, **case.get('opts', {}))
        zd = z.to_dense()
        res.append(denote.dense_of_tensor(zd))
        if cot is not None:
            shape = tuple(zd.size())
            typ = sp['nonterminals'][sp['start']]
            c = cot if sp is spec else presentations.permute_flat(cot, [ren.inv[l] if choice.get('rename') else l for l in typ], vp)
            B.backward(zd, B.tensor(c[:max(1, math.prod(shape))], shape))
            grads.append({n: (denote.dense_of_tensor(t.grad)[1] if t.grad is not None else [0.0] * math.prod(sh[n])) for n, t in tensors.items()})
    vit = []
    if case.get('viterbi_weight'):
        from oracles import c04_run
        from oracles.c01_run import weight_tables
        for sp, wf, explicit in ((spec, weights_flat, False), (spec2, w2, choice.get('explicit_ids', False))):
            sh = grammars.weight_shapes(sp)
            fgg = grammars.build_fgg(sp, B.fggs, {name: B.tensor(wf[name], shape) for name, shape in sh.items()}, explicit_ids=explicit)
            W = weight_tables(sp, wf)
            typ = sp['nonterminals'][sp['start']]
            ws = []
            for a2 in itertools.product(*[range(spec['domains'][l if sp is spec else ren.inv.get(l, l) if choice.get('rename') else l]) for l in typ]):
                # presentation 2 at a2 corresponds to presentation 1 at vp(a2)
                a = a2 if sp is not spec else tuple(vp[l][i] for l, i in zip(spec['nonterminals'][spec['start']], a2))
                d = B.fggs.viterbi(fgg, tuple(a), semiring=B.sr)
                with B.oracle_ctx():
                    w, err = c04_run.derivation_weight(B.O, d, W)
                ws.append(w if err is None else 'derive failed: ' + str(err))
            vit.append(ws)
    (s1, f1), (s2, f2) = res
    items = [('shape', list(s1), list(s2))]
    if tuple(s1) == tuple(s2):
        typ = spec['nonterminals'][spec['start']]
        items.append(('sum_product', presentations.permute_flat(f1, typ, vp), f2))
    if vit:
        items.append(('viterbi_derivation_weight', vit[0], vit[1]))
    if cot is not None and len(grads) == 2:
        for n in shapes:
            items.append((f'grad[{n}]', presentations.permute_flat(grads[0][n], spec['terminals'][n], vp), grads[1][ren(n)]))
    return items
