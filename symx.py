"""symx -- replay-forking symbolic executor.

A harness is an ordinary Python function.  Whenever the code under test needs
a concrete decision about a symbolic value (truth value of a z3 Bool, concrete
value of a z3 Int), it calls ENGINE.branch / ENGINE.choose.  The engine asks z3
which outcomes are feasible under the current path condition, follows one and
queues the others; queued alternatives are explored by re-executing the harness
with the recorded decision prefix (depth first).  Every path that is explored
is feasible by construction.
"""
import os
import time
import z3
import sx

ENGINE = None          # the engine of the running harness (set by Engine.run)


class Infeasible(BaseException):
    """raised by assume() when the path condition becomes unsatisfiable"""


class PathLimit(Exception):
    pass


class Inconclusive(Exception):
    """solver returned unknown"""


class Path:
    __slots__ = ('value', 'pc', 'decisions', 'exc', 'notes', 'facts')

    def __init__(self, value, pc, decisions, exc, notes):
        self.value = value
        self.facts = sx.path_facts()
        self.pc = pc
        self.decisions = decisions
        self.exc = exc
        self.notes = notes


class Stats:
    def __init__(self):
        self.paths = 0
        self.queries = 0
        self.solver_s = 0.0
        self.obligations = 0
        self.discharged = 0
        self.inconclusive = 0
        self.unmodelled = 0
        self.samples = []
        self.xcheck_agree = 0       # obligations re-decided by cvc5 with the same verdict
        self.xcheck_unknown = 0     # cvc5 gave no verdict within its budget
        self.xcheck_disagree = 0    # cvc5 found the negated claim satisfiable: the obligation is reported as inconclusive

    def merge(self, o):
        for k in ('paths', 'queries', 'obligations', 'discharged', 'inconclusive', 'unmodelled', 'xcheck_agree', 'xcheck_unknown', 'xcheck_disagree'):
            setattr(self, k, getattr(self, k) + getattr(o, k))
        self.solver_s += o.solver_s
        self.samples.extend(o.samples[:max(0, 6 - len(self.samples))])

    def as_dict(self):
        return dict(paths=self.paths, queries=self.queries, solver_time_s=round(self.solver_s, 3),
                    obligations=self.obligations, discharged=self.discharged,
                    inconclusive=self.inconclusive, unmodelled=self.unmodelled,
                    xcheck_agree=self.xcheck_agree, xcheck_unknown=self.xcheck_unknown, xcheck_disagree=self.xcheck_disagree)


STATS = Stats()

# ---- second solver: a sample of the obligations z3 discharged is exported as SMT-LIB2 and re-decided by cvc5
XCHECK = {'budget': int(os.environ.get('VERIF_XCHECK', '2')), 'done': 0, 'timeout_ms': 4000}


def cvc5_check(smt2, timeout_ms=4000):
    """'sat' | 'unsat' | 'unknown' | None (cvc5 unavailable or the text was not accepted)"""
    try:
        import cvc5
        slv = cvc5.Solver()
        slv.setOption('tlimit-per', str(timeout_ms))
        slv.setLogic('ALL')
        sm = cvc5.SymbolManager(slv.getTermManager()) if hasattr(slv, 'getTermManager') else cvc5.SymbolManager(slv)
        prs = cvc5.InputParser(slv, sm)
        prs.setStringInput(cvc5.InputLanguage.SMT_LIB_2_6, smt2, 'obligation')
        res = None
        while True:
            cmd = prs.nextCommand()
            if cmd.isNull():
                break
            out = cmd.invoke(slv, sm).strip()
            if out in ('sat', 'unsat', 'unknown'):
                res = out
            elif out.startswith('(error'):
                return None
        return res
    except Exception:      # noqa  (a second opinion that cannot be obtained is not a verdict)
        return None


def _xcheck_unsat(solver_text):
    """called for an obligation z3 has just discharged; returns False iff cvc5 contradicts it"""
    if XCHECK['done'] >= XCHECK['budget']:
        return True
    XCHECK['done'] += 1
    r = cvc5_check(solver_text, XCHECK['timeout_ms'])
    if r == 'unsat':
        STATS.xcheck_agree += 1
    elif r == 'sat':
        STATS.xcheck_disagree += 1
        return False
    else:
        STATS.xcheck_unknown += 1
    return True


import threading


_watch = {'deadline': None, 'ctx': None, 'thread': None, 'pid': None}


def _watchdog():
    while True:
        time.sleep(0.5)
        d = _watch['deadline']
        if d is not None and time.time() > d:
            _watch['deadline'] = None
            try:
                _watch['ctx'].interrupt()
            except Exception:      # noqa
                pass


def timed_check(solver, timeout_ms):
    """solver.check() with a hard wall-clock limit (nlsat does not always honour 'timeout'):
    a watchdog thread interrupts the context 2 s after the soft limit"""
    import os
    if _watch['thread'] is None or _watch['pid'] != os.getpid():
        t = threading.Thread(target=_watchdog, daemon=True)
        t.start()
        _watch['thread'], _watch['pid'] = t, os.getpid()
    _watch['ctx'] = solver.ctx
    _watch['deadline'] = time.time() + timeout_ms / 1000.0 + 2.0
    try:
        return solver.check()
    except z3.Z3Exception:
        return z3.unknown
    finally:
        _watch['deadline'] = None


class Engine:
    def __init__(self, assumptions=(), timeout_ms=20000, max_paths=3000000):
        self.assumptions = list(assumptions)
        self.timeout_ms = timeout_ms
        self.max_paths = max_paths
        self.solver = z3.Solver()
        self.solver.set('timeout', timeout_ms)
        self.work = []
        self.prefix = []
        self.pos = 0
        self.pc = []
        self.notes = []
        self.try_without_pc = True
        self.memo = {}

    # ---- driving
    def run(self, fn, catch=(Exception,)):
        """Explore every feasible path of fn(); returns a list of Path."""
        global ENGINE
        results = []
        self.work = [[]]
        prev = ENGINE
        try:
            while self.work:
                if len(results) >= self.max_paths:
                    raise PathLimit(f'more than {self.max_paths} paths')
                self.prefix = self.work.pop()
                self.pos = 0
                self.pc = []
                self.notes = []
                self.memo = {}
                sx.reset_path()
                ENGINE = self
                val = exc = None
                try:
                    val = fn()
                except Infeasible:
                    continue
                except catch as e:      # noqa
                    exc = e
                results.append(Path(val, list(self.pc) + sx.path_defs(), list(self.prefix[:self.pos]), exc, list(self.notes)))
                STATS.paths += 1
        finally:
            ENGINE = prev
        return results

    # ---- solver access
    def _check(self, *extra):
        t0 = time.perf_counter()
        self.solver.push()
        try:
            for a in self.assumptions:
                self.solver.add(a)
            for a in sx.const_assumptions():
                self.solver.add(a)
            for c in self.pc:
                self.solver.add(c)
            for c in sx.path_defs():
                self.solver.add(c)
            for c in extra:
                self.solver.add(c)
            r = timed_check(self.solver, self.timeout_ms)
        finally:
            self.solver.pop()
            STATS.queries += 1
            STATS.solver_s += time.perf_counter() - t0
        if r == z3.unknown:
            # one more attempt in a fresh, non-incremental solver with another seed and twice the budget (a loaded machine or an unlucky
            # nlsat run must not turn into an inconclusive case)
            t0 = time.perf_counter()
            s2 = z3.Solver()
            s2.set('timeout', 2 * self.timeout_ms)
            s2.set('random_seed', 23)
            for a in list(self.assumptions) + sx.const_assumptions() + list(self.pc) + sx.path_defs() + list(extra):
                s2.add(a)
            r = timed_check(s2, 2 * self.timeout_ms)
            STATS.queries += 1
            STATS.solver_s += time.perf_counter() - t0
        return r

    def feasible(self, cond):
        r = self._check(cond)
        if r == z3.unknown:
            raise Inconclusive(f'unknown on branch feasibility: {self.solver.reason_unknown()}')
        return r == z3.sat

    # ---- decisions
    def branch(self, cond, free=False):
        """concrete truth value of `cond` (Python bool or z3 Bool) on this path.
        free=True: cond is an unconstrained Boolean input variable (both outcomes feasible)."""
        if cond is True or cond is False:
            return cond
        if not isinstance(cond, z3.BoolRef):
            return bool(cond)
        cond = z3.simplify(cond)
        if z3.is_true(cond):
            return True
        if z3.is_false(cond):
            return False
        key = ('b', cond.get_id())
        if key in self.memo:
            return self.memo[key]
        d = self._branch(cond, free)
        self.memo[key] = d
        return d

    def _branch(self, cond, free):
        if self.pos < len(self.prefix):
            d = self.prefix[self.pos]
        elif free:
            self.work.append(self.prefix[:self.pos] + [False])
            d = True
            self.prefix = self.prefix[:self.pos] + [d]
        else:
            t = self.feasible(cond)
            f = self.feasible(z3.Not(cond))
            if t and f:
                self.work.append(self.prefix[:self.pos] + [False])
                d = True
            elif t:
                d = True
            elif f:
                d = False
            else:
                raise Infeasible()
            self.prefix = self.prefix[:self.pos] + [d]
        self.pos += 1
        self.pc.append(cond if d else z3.Not(cond))
        return d

    def choose(self, expr, lo=None, hi=None, free=False):
        """concrete value of the integer term `expr` on this path; forks over
        all feasible values (which must be finitely many: lo <= v < hi if given).
        free=True: `expr` is an input variable constrained only by lo <= expr < hi; one query
        establishes that no value outside the range is feasible, and every value inside is explored."""
        if isinstance(expr, int):
            return expr
        expr = z3.simplify(expr)
        if z3.is_int_value(expr):
            return expr.as_long()
        key = ('i', expr.get_id())
        if key in self.memo:          # the same term was already decided on this path
            return self.memo[key]
        d = self._choose(expr, lo, hi, free)
        self.memo[key] = d
        return d

    def _choose(self, expr, lo, hi, free):
        if self.pos < len(self.prefix):
            d = self.prefix[self.pos]
        elif free:
            if self.feasible(z3.Or(expr < lo, expr >= hi)):
                raise Inconclusive('free variable feasible outside its declared range')
            vals = list(range(lo, hi))
            for v in vals[1:]:
                self.work.append(self.prefix[:self.pos] + [v])
            d = vals[0]
            self.prefix = self.prefix[:self.pos] + [d]
        else:
            vals = []
            excl = []
            if lo is not None:
                excl.append(expr >= lo)
            if hi is not None:
                excl.append(expr < hi)
            while True:
                t0 = time.perf_counter()
                self.solver.push()
                try:
                    for a in self.assumptions + sx.const_assumptions() + self.pc + sx.path_defs() + excl:
                        self.solver.add(a)
                    r = timed_check(self.solver, self.timeout_ms)
                    if r == z3.unknown:
                        raise Inconclusive('unknown in choose')
                    if r == z3.unsat:
                        break
                    v = self.solver.model().eval(expr, model_completion=True).as_long()
                finally:
                    self.solver.pop()
                    STATS.queries += 1
                    STATS.solver_s += time.perf_counter() - t0
                vals.append(v)
                excl.append(expr != v)
                if len(vals) > 64:
                    raise PathLimit('choose: more than 64 feasible values')
            if not vals:
                raise Infeasible()
            vals.sort()
            for v in vals[1:]:
                self.work.append(self.prefix[:self.pos] + [v])
            d = vals[0]
            self.prefix = self.prefix[:self.pos] + [d]
        self.pos += 1
        self.pc.append(expr == d)
        return d

    def assume(self, cond):
        if cond is True:
            return
        if cond is False:
            raise Infeasible()
        self.pc.append(cond)
        if not self.feasible(z3.BoolVal(True)):
            raise Infeasible()

    def note(self, x):
        self.notes.append(x)

    # ---- obligations
    def prove(self, claim, pc=None, label='', extra=()):
        """Decide  assumptions /\\ pc => claim.  Returns (verdict, model):
        'unsat' (holds), 'sat' (counterexample model), 'unknown'."""
        STATS.obligations += 1
        if claim is True:
            STATS.discharged += 1
            return 'unsat', None
        neg = sx.Not(claim)
        t0 = time.perf_counter()
        s = self.solver
        usepc = list(pc if pc is not None else self.pc)
        if usepc and self.try_without_pc:
            # a claim that is valid without the path condition is valid with it; the
            # path condition (often nonlinear comparisons) is what slows nlsat down
            s.push()
            try:
                for a in self.assumptions + sx.const_assumptions() + list(extra):
                    s.add(a)
                s.add(sx.BoolZ(neg))
                s.set('timeout', min(self.timeout_ms, 4000))
                r0 = timed_check(s, min(self.timeout_ms, 4000))
            finally:
                s.set('timeout', self.timeout_ms)
                s.pop()
                STATS.queries += 1
            if r0 == z3.unsat:
                STATS.solver_s += time.perf_counter() - t0
                STATS.discharged += 1
                return 'unsat', None
        # the deciding query runs in a fresh, non-incremental solver (full tactic pipeline); an
        # `unknown` is retried with other seeds before it is reported as inconclusive
        facts = self.assumptions + sx.const_assumptions() + usepc + list(extra)
        r, model = z3.unknown, None
        for attempt in range(3):
            s2 = z3.Solver()
            s2.set('timeout', self.timeout_ms if attempt == 0 else max(self.timeout_ms // 2, 5000))
            if attempt:
                s2.set('random_seed', 17 * attempt)
                z3.set_param('nlsat.seed', 17 * attempt)
            for a in facts:
                s2.add(a)
            s2.add(sx.BoolZ(neg))
            if attempt == 0 and len(STATS.samples) < 3:
                STATS.samples.append({'label': label, 'smt2': s2.to_smt2()[:1500]})
            r = timed_check(s2, self.timeout_ms)
            STATS.queries += 1
            if r != z3.unknown:
                model = s2.model() if r == z3.sat else None
                break
        STATS.solver_s += time.perf_counter() - t0
        if r == z3.unsat:
            if not _xcheck_unsat(s2.to_smt2()):
                STATS.inconclusive += 1
                return 'unknown', None
            STATS.discharged += 1
            return 'unsat', None
        if r == z3.sat:
            return 'sat', model
        STATS.inconclusive += 1
        return 'unknown', None


def branch(cond, free=False):
    if cond is True or cond is False:
        return cond
    if ENGINE is not None and free:
        return ENGINE.branch(cond, free=True)
    if ENGINE is None:
        if isinstance(cond, z3.BoolRef):
            c = z3.simplify(cond)
            if z3.is_true(c):
                return True
            if z3.is_false(c):
                return False
            raise RuntimeError('symbolic branch outside an engine run')
        return bool(cond)
    return ENGINE.branch(cond)


def choose(expr, lo=None, hi=None, free=False):
    if isinstance(expr, int):
        return expr
    if ENGINE is not None and free:
        return ENGINE.choose(expr, lo, hi, free=True)
    if ENGINE is None:
        e = z3.simplify(expr)
        if z3.is_int_value(e):
            return e.as_long()
        raise RuntimeError('symbolic choose outside an engine run')
    return ENGINE.choose(expr, lo, hi)


class SymBool:
    """a symbolic Python-level bool (forks on use)"""
    __slots__ = ('c',)

    def __init__(self, c):
        self.c = c

    def __bool__(self):
        return branch(self.c)
