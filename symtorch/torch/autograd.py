"""Model of torch.autograd.Function and of reverse-mode accumulation.

Between two Function.apply calls fggs only applies *view* operations to tensors
that require grad, so cotangents are accumulated per storage cell; the recorded
backward functions are called in reverse creation order.  Arithmetic applied to
a grad-requiring tensor outside a Function yields an `_untracked` tensor, and
feeding such a tensor to a Function raises Unmodelled."""
import sx
from sx import Unmodelled

_TAPE = []


def reset_tape():
    del _TAPE[:]


class _Ctx:
    def __init__(self):
        self.saved_tensors = ()
        self.needs_input_grad = ()
        self.materialize_grads = True

    def save_for_backward(self, *a):
        self.saved_tensors = a

    def set_materialize_grads(self, v):
        self.materialize_grads = v

    def mark_non_differentiable(self, *a):
        pass


class Function:
    @classmethod
    def apply(cls, *args):
        import torch
        from torch import Tensor, _GRAD_ENABLED
        ctx = _Ctx()
        tin = [a for a in args if isinstance(a, Tensor)]
        for t in tin:
            if t._untracked:
                raise Unmodelled('autograd: Function input computed outside a Function from a grad-requiring tensor')
        ctx.needs_input_grad = tuple(isinstance(a, Tensor) and a.requires_grad for a in args)
        record = _GRAD_ENABLED[0] and any(ctx.needs_input_grad)
        prev = _GRAD_ENABLED[0]
        _GRAD_ENABLED[0] = False
        try:
            out = cls.forward(ctx, *args)
        finally:
            _GRAD_ENABLED[0] = prev
        if not record:
            return out
        single = not isinstance(out, tuple)
        outs = (out,) if single else out
        new = []
        outs_t = []
        for o in outs:
            if isinstance(o, Tensor):
                # autograd returns a fresh tensor object for each output; an output
                # that is an input (or a view of one) is turned into its own node
                locs = o._locs()
                if len(set(locs)) != len(locs):
                    # output with internal overlap (stride 0): materialised densely, so that
                    # per-cell cotangent accumulation stays per logical element
                    t = Tensor._new(o._vals(), o._size, o.dtype)
                    t.requires_grad = o.dtype.kind == 'f'
                else:
                    t = Tensor(list(o._storage), o._size, o._stride, o._offset, o.dtype, o.dtype.kind == 'f')
                t.is_leaf = False
                new.append(t)
                outs_t.append(t)
            else:
                new.append(o)
        _TAPE.append((cls, ctx, args, outs, new))
        return new[0] if single else tuple(new)


def backward(tensors, grads):
    """accumulate d(sum_i <grads[i], tensors[i]>)/d(leaf) into leaf.grad"""
    import torch
    from torch import Tensor
    cell = {}     # (id(storage), loc) -> cotangent

    def deposit(t, g):
        if g is None:
            return
        if tuple(g._size) != tuple(t._size):
            raise RuntimeError(f'gradient shape {tuple(g._size)} does not match tensor shape {tuple(t._size)}')
        sid = id(t._storage)
        for ix in t._idx():
            k = (sid, t._loc(ix))
            v = g._get(ix)
            cell[k] = sx.add(cell[k], v) if k in cell else v

    def collect(t):
        sid = id(t._storage)
        vals = [cell.get((sid, t._loc(ix)), 0.0) for ix in t._idx()]
        return Tensor._new(vals, t._size, t.dtype)

    keep = []   # keep storages alive so id() stays unique
    for t, g in zip(tensors, grads):
        if g is None:
            if t.numel() != 1:
                raise RuntimeError('grad can be implicitly created only for scalar outputs')
            g = torch.full(t._size, 1.0, dtype=t.dtype)
        if t._untracked:
            raise Unmodelled('autograd: backward from a tensor computed outside a Function')
        deposit(t, g)
    leaves = {}
    prev = torch._GRAD_ENABLED[0]
    torch._GRAD_ENABLED[0] = False
    try:
        for node in reversed(_TAPE):
            if node[0] in ('clone', 'copy'):
                _, src, dst = node
                sid = id(dst._storage)
                ks = [(sid, dst._loc(ix)) for ix in dst._idx()]
                if any(k in cell for k in ks):
                    g = collect(dst)
                    for k in ks:
                        cell.pop(k, None)
                    deposit(src, g)
                    base = src._base if src._base is not None else src
                    leaves[id(base)] = base
                continue
            if node[0] == 'unary':
                _, src, dst, deriv = node
                sid = id(dst._storage)
                if any((sid, dst._loc(ix)) in cell for ix in dst._idx()):
                    g = collect(dst)
                    g = Tensor._new([sx.mul(a, d) for a, d in zip(g._vals(), deriv)], g._size, g.dtype)
                    deposit(src, g)
                    base = src._base if src._base is not None else src
                    leaves[id(base)] = base
                continue
            cls, ctx, args, outs, new = node
            gouts = []
            anyg = False
            for o in new:
                if isinstance(o, Tensor):
                    sid = id(o._storage)
                    has = any((sid, o._loc(ix)) in cell for ix in o._idx())
                    anyg = anyg or has
                    gouts.append(collect(o) if (has or ctx.materialize_grads) and o.dtype.kind == 'f' else None)
                else:
                    gouts.append(None)
            if not anyg:
                continue
            gins = cls.backward(ctx, *gouts)
            if not isinstance(gins, tuple):
                gins = (gins,)
            if len(gins) != len(args):
                raise RuntimeError('function returned an incorrect number of gradients')
            for a, g in zip(args, gins):
                if isinstance(a, Tensor) and a.requires_grad and g is not None:
                    deposit(a, g)
                    base = a._base if a._base is not None else a
                    if base.is_leaf or base._base is None:
                        leaves[id(base)] = base
    finally:
        torch._GRAD_ENABLED[0] = prev
    for base in leaves.values():
        if base.requires_grad and base.is_leaf:
            g = collect(base)
            base.grad = g if base.grad is None else base.grad.add(g)


def grad(*a, **k):
    raise Unmodelled('torch.autograd.grad')


def gradcheck(f, inputs, eps=1e-6, atol=1e-5, rtol=1e-3, **kw):
    """finite-difference check of the autograd model on concrete inputs (used
    only when the repository's own tests are run on the model)"""
    import torch
    from torch import Tensor
    inputs = tuple(inputs)

    def run():
        reset_tape()
        o = f(*inputs)
        return o if isinstance(o, tuple) else (o,)
    outs = run()
    nout = [o.numel() for o in outs]
    # analytical jacobian rows
    ana = {}
    for oi, o in enumerate(outs):
        for j, ix in enumerate(list(o._idx())):
            outs2 = run()
            for t in inputs:
                t.grad = None
            cot = torch.zeros(outs2[oi]._size, dtype=outs2[oi].dtype)
            cot._set(ix, 1.0)
            if outs2[oi].requires_grad:
                backward([outs2[oi]], [cot])
            for ii, t in enumerate(inputs):
                g = t.grad
                for k, kx in enumerate(list(t._idx())):
                    ana[(oi, j, ii, k)] = 0.0 if g is None else float(g._get(kx))
    ok = True
    for ii, t in enumerate(inputs):
        for k, kx in enumerate(list(t._idx())):
            loc = t._loc(kx)
            orig = t._storage[loc]
            t._storage[loc] = orig + eps
            plus = [[float(v) for v in o._vals()] for o in run()]
            t._storage[loc] = orig - eps
            minus = [[float(v) for v in o._vals()] for o in run()]
            t._storage[loc] = orig
            for oi in range(len(outs)):
                for j in range(nout[oi]):
                    num = (plus[oi][j] - minus[oi][j]) / (2 * eps)
                    a = ana[(oi, j, ii, k)]
                    if not (abs(num - a) <= atol + rtol * abs(num)):
                        ok = False
                        raise RuntimeError(f'gradcheck: output {oi}[{j}] wrt input {ii}[{k}]: numerical {num} analytical {a}')
    reset_tape()
    return ok
