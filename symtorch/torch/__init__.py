"""symtorch -- a pure-Python model of the part of the torch API used by fggs
and torch_semiring_einsum.  Tensor structure (size/stride/offset/dtype) is
concrete and follows ATen's view semantics; tensor *elements* are concrete
Python numbers or symbolic scalars from `sx` (z3 terms).

Anything outside the modelled set raises sx.Unmodelled.
"""
import builtins
import itertools
import math
import operator
from functools import reduce

import z3
import sx
import symx
from sx import Unmodelled

_b = builtins


class UnmodelledAttr(Unmodelled, AttributeError):
    pass

__version__ = '2.14.0+symtorch'

# --------------------------------------------------------------------------
# dtypes, finfo, device


class dtype:
    def __init__(self, name, kind, bits):
        self.name = name
        self.kind = kind      # 'b' bool, 'i' int, 'f' float
        self.bits = bits
        self.is_floating_point = kind == 'f'

    def __repr__(self):
        return 'torch.' + self.name


float32 = dtype('float32', 'f', 32)
float64 = dtype('float64', 'f', 64)
float16 = dtype('float16', 'f', 16)
bool = dtype('bool', 'b', 8)
int64 = dtype('int64', 'i', 64)
int32 = dtype('int32', 'i', 32)
uint8 = dtype('uint8', 'i', 8)
float = float32
double = float64
long = int64
int = int32

_default_dtype = [float32]


def get_default_dtype():
    return _default_dtype[0]


def set_default_dtype(d):
    _default_dtype[0] = d


_FMAX = {32: 3.4028234663852886e+38, 64: 1.7976931348623157e+308, 16: 65504.0}


class finfo:
    def __init__(self, d=None):
        if d is None:
            d = get_default_dtype()
        if d.kind != 'f':
            raise TypeError('finfo of non-float dtype')
        self.bits = d.bits
        self.max = _FMAX[d.bits]
        self.min = -self.max
        self.eps = {32: 1.1920928955078125e-07, 64: 2.220446049250313e-16, 16: 0.0009765625}[d.bits]
        self.tiny = {32: 1.1754943508222875e-38, 64: 2.2250738585072014e-308, 16: 6.103515625e-05}[d.bits]


class iinfo:
    def __init__(self, d):
        if d.kind != 'i':
            raise TypeError('iinfo of non-int dtype')
        self.bits = d.bits
        self.max = 2 ** (d.bits - 1) - 1
        self.min = -2 ** (d.bits - 1)


class device:
    def __init__(self, t='cpu', index=None):
        if isinstance(t, device):
            t = t.type
        self.type = t
        self.index = index

    def __eq__(self, o):
        return isinstance(o, device) and o.type == self.type or o == self.type

    def __hash__(self):
        return hash(self.type)

    def __repr__(self):
        return f"device(type='{self.type}')"


_CPU = device('cpu')


class _Cuda:
    @staticmethod
    def is_available():
        return False

    memory_reserved = staticmethod(lambda *a: 0)
    mem_get_info = staticmethod(lambda *a: (0, 0))
    memory_allocated = staticmethod(lambda *a: 0)


cuda = _Cuda()


class Size(tuple):
    def __new__(cls, it=()):
        return tuple.__new__(cls, (_b.int(x) for x in it))

    def numel(self):
        return reduce(operator.mul, self, 1)

    def __add__(self, o):
        return Size(tuple(self) + tuple(o))

    def __radd__(self, o):
        return Size(tuple(o) + tuple(self))

    def __getitem__(self, i):
        r = tuple.__getitem__(self, i)
        return Size(r) if isinstance(i, slice) else r

    def __repr__(self):
        return f'torch.Size({list(self)})'


# --------------------------------------------------------------------------
# helpers


def _contig(size):
    st = []
    acc = 1
    for n in reversed(size):
        st.append(acc)
        acc *= _b.max(n, 1)
    return tuple(reversed(st))


def _norm_size(args):
    if len(args) == 1 and not isinstance(args[0], _b.int) and not (isinstance(args[0], Tensor) and args[0].dim() == 0):
        return tuple(_b.int(x) for x in args[0])
    return tuple(_b.int(x) for x in args)


def _wrap_dim(d, n, extra=0):
    lo, hi = -(n + extra), n + extra
    if n + extra == 0:
        lo, hi = -1, 1
    if not (lo <= d < hi):
        raise IndexError(f'Dimension out of range (expected to be in range of [{lo}, {hi - 1}], but got {d})')
    return d + n + extra if d < 0 else d


def _is_nod(size, stride):
    """is_non_overlapping_and_dense"""
    if reduce(operator.mul, size, 1) == 0:
        return True
    dims = sorted((i for i in range(len(size)) if size[i] != 1), key=lambda i: stride[i])
    expect = 1
    for i in dims:
        if stride[i] != expect:
            return False
        expect *= size[i]
    return True


def _infer_dense_strides(size, stride):
    n = len(size)
    perm = [n - 1 - i for i in range(n)]

    def should_swap(a, b):
        sa, sb = stride[a], stride[b]
        if sa == 0 or sb == 0:
            return 0
        if sa < sb:
            return -1
        if sa > sb:
            return 1
        return 1 if size[a] > size[b] else 0
    for i in range(1, n):
        dim1 = i
        for dim0 in range(i - 1, -1, -1):
            c = should_swap(perm[dim0], perm[dim1])
            if c > 0:
                perm[dim0], perm[dim1] = perm[dim1], perm[dim0]
                dim1 = dim0
            elif c < 0:
                break
    out = [0] * n
    cur = 1
    for i in range(n):
        out[perm[i]] = cur
        cur *= size[perm[i]]
    return tuple(out)


def _like_strides(size, stride):
    if _is_nod(size, stride):
        return tuple(stride)
    return _infer_dense_strides(size, stride)


def _compute_view_stride(oldsize, oldstride, newsize):
    numel = reduce(operator.mul, oldsize, 1)
    if numel == 0:
        if tuple(oldsize) == tuple(newsize):
            return tuple(oldstride)
        return _contig(newsize)
    if len(oldsize) == 0:
        return tuple(1 for _ in newsize)
    newstride = [0] * len(newsize)
    view_d = len(newsize) - 1
    chunk_base = oldstride[-1]
    tnum = 1
    vnum = 1
    for td in range(len(oldsize) - 1, -1, -1):
        tnum *= oldsize[td]
        if td == 0 or (oldsize[td - 1] != 1 and oldstride[td - 1] != tnum * chunk_base):
            while view_d >= 0 and (vnum < tnum or newsize[view_d] == 1):
                newstride[view_d] = vnum * chunk_base
                vnum *= newsize[view_d]
                view_d -= 1
            if vnum != tnum:
                return None
            if td > 0:
                chunk_base = oldstride[td - 1]
                tnum = 1
                vnum = 1
    if view_d != -1:
        return None
    return tuple(newstride)


def _infer_size(size, numel):
    size = list(size)
    neg = [i for i, s in enumerate(size) if s == -1]
    if len(neg) > 1:
        raise RuntimeError('only one dimension can be inferred')
    if neg:
        rest = reduce(operator.mul, (s for s in size if s != -1), 1)
        if rest == 0 or numel % rest:
            raise RuntimeError(f"shape '{size}' is invalid for input of size {numel}")
        size[neg[0]] = numel // rest
    if reduce(operator.mul, size, 1) != numel:
        raise RuntimeError(f"shape '{size}' is invalid for input of size {numel}")
    return tuple(size)


def _broadcast_sizes(*sizes):
    n = _b.max((len(s) for s in sizes), default=0)
    out = []
    for i in range(n):
        d = 1
        for s in sizes:
            j = i - (n - len(s))
            if j < 0:
                continue
            if s[j] != 1:
                if d != 1 and d != s[j]:
                    raise RuntimeError(f'The size of tensor a ({d}) must match the size of tensor b ({s[j]}) at non-singleton dimension {i}')
                d = s[j]
        out.append(d)
    return tuple(out)


def _kind_of_scalar(x):
    if isinstance(x, (_b.bool, z3.BoolRef)):
        return 'b'
    if isinstance(x, _b.int) or (isinstance(x, z3.ArithRef) and x.is_int()):
        return 'i'
    return 'f'


def _cast(x, dt):
    """convert scalar element x to dtype dt"""
    k = dt.kind
    xk = _kind_of_scalar(x)
    if k == xk:
        return x
    if k == 'b':
        return sx.to_bool(x)
    if k == 'i':
        if xk == 'b':
            return sx.IteI(x, 1, 0) if sx.is_z(x) else _b.int(x)
        if isinstance(x, _b.float):
            return _b.int(x)
        raise Unmodelled('float->int conversion of a symbolic value')
    # float
    if isinstance(x, (_b.bool, _b.int)):
        return _b.float(x)
    return sx.SX.const(x)


_GRAD_ENABLED = [True]


class no_grad:
    def __enter__(self):
        self.prev = _GRAD_ENABLED[0]
        _GRAD_ENABLED[0] = False

    def __exit__(self, *a):
        _GRAD_ENABLED[0] = self.prev


def is_grad_enabled():
    return _GRAD_ENABLED[0]


# --------------------------------------------------------------------------


class Tensor:
    def __init__(self, storage, size=None, stride=None, offset=0, dt=None, requires_grad=False):
        if size is None:        # legacy constructor torch.Tensor(data)
            size, storage = _flatten_data(storage)
            storage = [_cast(v, float32) for v in storage]
            stride, dt = _contig(size), float32
        self._storage = storage
        self._size = Size(size)
        self._stride = tuple(stride)
        self._offset = offset
        self.dtype = dt
        self.requires_grad = requires_grad
        self.grad = None
        self._untracked = False     # result of arithmetic on a grad-requiring tensor outside a Function
        self._base = None
        self.is_leaf = True
        self.device = _CPU

    # ---- construction helpers
    @staticmethod
    def _new(vals, size, dt, stride=None):
        size = tuple(size)
        if stride is None:
            return Tensor(list(vals), size, _contig(size), 0, dt)
        # lay out `vals` (given in index order) according to `stride` (dense permutation)
        n = reduce(operator.mul, size, 1)
        st = [None] * n
        t = Tensor(st, size, stride, 0, dt)
        for ix, v in zip(t._idx(), vals):
            st[t._loc(ix)] = v
        return t

    def _view(self, size, stride, offset):
        t = Tensor(self._storage, size, stride, offset, self.dtype, self.requires_grad)
        t._untracked = self._untracked
        t._base = self._base if self._base is not None else self
        t.is_leaf = self.is_leaf and not self.requires_grad
        return t

    # ---- metadata
    def size(self, d=None):
        return self._size if d is None else self._size[_wrap_dim(d, len(self._size))]

    @property
    def shape(self):
        return self._size

    def stride(self, d=None):
        return self._stride if d is None else self._stride[_wrap_dim(d, len(self._size))]

    def storage_offset(self):
        return self._offset

    def dim(self):
        return len(self._size)

    ndimension = dim

    @property
    def ndim(self):
        return len(self._size)

    def numel(self):
        return self._size.numel()

    nelement = numel

    def is_contiguous(self):
        exp = 1
        for n, t in zip(reversed(self._size), reversed(self._stride)):
            if n == 1:
                continue
            if t != exp:
                return self.numel() == 0
            exp *= n
        return True

    def is_complex(self):
        return False

    def is_floating_point(self):
        return self.dtype.kind == 'f'

    def element_size(self):
        return self.dtype.bits // 8

    def __len__(self):
        if not self._size:
            raise TypeError('len() of a 0-d tensor')
        return self._size[0]

    __hash__ = object.__hash__

    def requires_grad_(self, requires_grad=True):
        self.requires_grad = requires_grad
        return self

    def detach(self):
        t = Tensor(self._storage, self._size, self._stride, self._offset, self.dtype, False)
        return t

    @property
    def data(self):
        return self.detach()

    # ---- element access
    def _idx(self):
        return itertools.product(*[range(n) for n in self._size])

    def _loc(self, ix):
        o = self._offset
        for i, t in zip(ix, self._stride):
            o += i * t
        return o

    def _get(self, ix):
        return self._storage[self._loc(ix)]

    def _set(self, ix, v):
        self._storage[self._loc(ix)] = v

    def _vals(self):
        st = self._storage
        return [st[self._loc(ix)] for ix in self._idx()]

    def _locs(self):
        return [self._loc(ix) for ix in self._idx()]

    def _check_write(self):
        # torch refuses in-place writes to tensors with internal overlap
        locs = self._locs()
        if len(set(locs)) != len(locs):
            raise RuntimeError('unsupported operation: more than one element of the written-to tensor refers to a single memory location. Please clone() the tensor before performing the operation.')
        if self.requires_grad and self.is_leaf and _GRAD_ENABLED[0] and self._base is None:
            raise RuntimeError('a leaf Variable that requires grad is being used in an in-place operation.')
        return locs

    def _write(self, vals):
        locs = self._check_write()
        st = self._storage
        for l, v in zip(locs, vals):
            st[l] = v
        return self

    def item(self):
        if self.numel() != 1:
            raise RuntimeError('a Tensor with %d elements cannot be converted to Scalar' % self.numel())
        v = self._get((0,) * self.dim())
        return _concretize(v)

    def tolist(self):
        def rec(t):
            if t.dim() == 0:
                return t.item()
            return [rec(t[i]) for i in range(t._size[0])]
        return rec(self)

    def __bool__(self):
        if self.numel() != 1:
            raise RuntimeError('Boolean value of Tensor with more than one value is ambiguous')
        v = self._get((0,) * self.dim())
        return symx.branch(sx.to_bool(v))

    def __float__(self):
        v = self.item()
        return _b.float(v)

    def __int__(self):
        return _b.int(self.item())

    def __index__(self):
        if self.dtype.kind == 'f':
            raise TypeError('only integer tensors of a single element can be converted to an index')
        return _b.int(self.item())

    def __iter__(self):
        if self.dim() == 0:
            raise TypeError('iteration over a 0-d tensor')
        return iter(self.unbind(0))

    def unbind(self, dim=0):
        dim = _wrap_dim(dim, self.dim())
        return tuple(self.select(dim, i) for i in range(self._size[dim]))

    def select(self, dim, i):
        dim = _wrap_dim(dim, self.dim())
        n = self._size[dim]
        if not -n <= i < n:
            raise IndexError(f'index {i} is out of bounds for dimension {dim} with size {n}')
        if i < 0:
            i += n
        sz = self._size[:dim] + self._size[dim + 1:]
        st = self._stride[:dim] + self._stride[dim + 1:]
        return self._view(sz, st, self._offset + i * self._stride[dim])

    # ---- views
    def as_strided(self, size, stride, storage_offset=None):
        return self._view(tuple(size), tuple(stride), self._offset if storage_offset is None else storage_offset)

    def expand(self, *size):
        size = _norm_size(size)
        nd = len(size)
        if nd < self.dim():
            raise RuntimeError(f'expand: the number of sizes provided ({nd}) must be greater or equal to the number of dimensions in the tensor ({self.dim()})')
        pad = nd - self.dim()
        osz = (1,) * pad + tuple(self._size)
        ost = (0,) * pad + self._stride
        nsz = []
        nst = []
        for i, (n, o, t) in enumerate(zip(size, osz, ost)):
            if n == -1:
                if i < pad:
                    raise RuntimeError('expand: -1 not allowed in leading, non-existing dimension')
                n = o
            if o == n:
                nsz.append(n)
                nst.append(t)
            elif o == 1:
                nsz.append(n)
                nst.append(0)
            else:
                raise RuntimeError(f'The expanded size of the tensor ({n}) must match the existing size ({o}) at non-singleton dimension {i}.')
        return self._view(nsz, nst, self._offset)

    def expand_as(self, other):
        return self.expand(other.size())

    def permute(self, *dims):
        dims = _norm_size(dims)
        n = self.dim()
        if len(dims) != n:
            raise RuntimeError('permute: number of dims does not match')
        dims = [_wrap_dim(d, n) for d in dims]
        if sorted(dims) != list(range(n)):
            raise RuntimeError('permute: repeated dim')
        return self._view([self._size[d] for d in dims], [self._stride[d] for d in dims], self._offset)

    def transpose(self, d0, d1):
        n = self.dim()
        d0, d1 = _wrap_dim(d0, n), _wrap_dim(d1, n)
        dims = list(range(n))
        dims[d0], dims[d1] = dims[d1], dims[d0]
        return self.permute(dims)

    def t(self):
        if self.dim() > 2:
            raise RuntimeError('t() expects a tensor with <= 2 dimensions')
        return self if self.dim() < 2 else self.transpose(0, 1)

    @property
    def T(self):
        return self.permute(list(reversed(range(self.dim()))))

    @property
    def mT(self):
        return self.transpose(-2, -1)

    def movedim(self, src, dst):
        n = self.dim()
        src, dst = _wrap_dim(src, n), _wrap_dim(dst, n)
        dims = [d for d in range(n) if d != src]
        dims.insert(dst, src)
        return self.permute(dims)

    def unsqueeze(self, d):
        d = _wrap_dim(d, self.dim(), 1)
        sz = list(self._size)
        st = list(self._stride)
        ns = 1 if d >= self.dim() else sz[d] * st[d]
        sz.insert(d, 1)
        st.insert(d, ns)
        return self._view(sz, st, self._offset)

    def squeeze(self, d=None):
        if d is not None:
            if self.dim() == 0:
                _wrap_dim(d, 0)
                return self._view(self._size, self._stride, self._offset)
            d = _wrap_dim(d, self.dim())
        keep = [i for i, n in enumerate(self._size) if not (n == 1 and (d is None or i == d))]
        return self._view([self._size[i] for i in keep], [self._stride[i] for i in keep], self._offset)

    def unsqueeze_(self, d):
        t = self.unsqueeze(d)
        self._size, self._stride = t._size, t._stride
        return self

    def diag_embed(self, offset=0, dim1=-2, dim2=-1):
        if offset != 0:
            raise Unmodelled('diag_embed with offset')
        nd = self.dim() + 1
        dim1, dim2 = _wrap_dim(dim1, nd), _wrap_dim(dim2, nd)
        n = self._size[-1]
        rest = [d for d in range(nd) if d not in (dim1, dim2)]
        osz = [0] * nd
        for d, s_ in zip(rest, self._size[:-1]):
            osz[d] = s_
        osz[dim1] = osz[dim2] = n
        z = _cast(0, self.dtype)
        vals = []
        for ix in itertools.product(*[range(s_) for s_ in osz]):
            if ix[dim1] == ix[dim2]:
                vals.append(self._get(tuple(ix[d] for d in rest) + (ix[dim1],)))
            else:
                vals.append(z)
        return _result(vals, osz, self.dtype, (self,))

    def matmul(self, o):
        return self.__matmul__(o)

    def mv(self, o):
        return mv(self, o)

    def mm(self, o):
        return mm(self, o)

    def squeeze_(self, d=None):
        t = self.squeeze(d)
        self._size, self._stride = t._size, t._stride
        return self

    def diagonal(self, offset=0, dim1=0, dim2=1):
        n = self.dim()
        dim1, dim2 = _wrap_dim(dim1, n), _wrap_dim(dim2, n)
        if offset != 0:
            raise Unmodelled('diagonal with offset')
        k = _b.min(self._size[dim1], self._size[dim2])
        sz = [self._size[i] for i in range(n) if i not in (dim1, dim2)] + [k]
        st = [self._stride[i] for i in range(n) if i not in (dim1, dim2)] + [self._stride[dim1] + self._stride[dim2]]
        return self._view(sz, st, self._offset)

    def view(self, *size):
        if len(size) == 1 and isinstance(size[0], dtype):
            raise Unmodelled('view(dtype)')
        size = _infer_size(_norm_size(size), self.numel())
        st = _compute_view_stride(self._size, self._stride, size)
        if st is None:
            raise RuntimeError('view size is not compatible with input tensor\'s size and stride (at least one dimension spans across two contiguous subspaces). Use .reshape(...) instead.')
        return self._view(size, st, self._offset)

    def reshape(self, *size):
        size = _infer_size(_norm_size(size), self.numel())
        st = _compute_view_stride(self._size, self._stride, size)
        if st is not None:
            return self._view(size, st, self._offset)
        return self.contiguous_clone().view(size)

    def flatten(self, start_dim=0, end_dim=-1):
        n = self.dim()
        if n == 0:
            return self.reshape(1)
        s, e = _wrap_dim(start_dim, n), _wrap_dim(end_dim, n)
        mid = reduce(operator.mul, self._size[s:e + 1], 1)
        return self.reshape(tuple(self._size[:s]) + (mid,) + tuple(self._size[e + 1:]))

    def contiguous(self):
        return self if self.is_contiguous() else self.contiguous_clone()

    def contiguous_clone(self):
        return _result(self._vals(), self._size, self.dtype, (self,), strides=_contig(self._size))

    def clone(self):
        r = _result(self._vals(), self._size, self.dtype, (self,), strides=_like_strides(self._size, self._stride))
        if r._untracked and not self._untracked:
            r._untracked = False
            autograd._TAPE.append(('clone', self, r))
        return r

    def repeat(self, *reps):
        reps = _norm_size(reps)
        if len(reps) < self.dim():
            raise RuntimeError('Number of dimensions of repeat dims can not be smaller than number of dimensions of tensor')
        pad = len(reps) - self.dim()
        src = self._view((1,) * pad + tuple(self._size), (0,) * pad + self._stride, self._offset)
        sz = [n * r for n, r in zip(src._size, reps)]
        vals = [src._get(tuple(i % n for i, n in zip(ix, src._size))) for ix in itertools.product(*[range(n) for n in sz])]
        return _result(vals, sz, self.dtype, (self,))

    # ---- indexing
    def _index(self, index):
        if not isinstance(index, tuple):
            index = (index,)
        if _b.any(isinstance(i, (Tensor, list)) for i in index):
            raise Unmodelled('advanced indexing')
        n_specified = _b.sum(1 for i in index if i is not None and i is not Ellipsis)
        if n_specified > self.dim():
            raise IndexError('too many indices for tensor of dimension %d' % self.dim())
        if Ellipsis in index:
            k = index.index(Ellipsis)
            index = index[:k] + (slice(None),) * (self.dim() - n_specified) + index[k + 1:]
        sz = []
        st = []
        off = self._offset
        d = 0
        for i in index:
            if i is None:
                sz.append(1)
                st.append(1 if d >= self.dim() else self._size[d] * self._stride[d])
            elif isinstance(i, slice):
                a, b, c = i.indices(self._size[d])
                if c <= 0:
                    raise ValueError('slice step must be positive')
                sz.append(len(range(a, b, c)))
                st.append(self._stride[d] * c)
                off += a * self._stride[d]
                d += 1
            else:
                i = operator.index(i)
                n = self._size[d]
                if not -n <= i < n:
                    raise IndexError(f'index {i} is out of bounds for dimension {d} with size {n}')
                if i < 0:
                    i += n
                off += i * self._stride[d]
                d += 1
        sz += self._size[d:]
        st += self._stride[d:]
        # fix None strides computed against the original dims (cosmetic; size-1 dims)
        return self._view(sz, st, off)

    def __getitem__(self, index):
        return self._index(index)

    def __setitem__(self, index, value):
        dst = self._index(index)
        if isinstance(value, Tensor):
            dst.copy_(value)
        else:
            dst.fill_(value)

    # ---- in-place elementwise
    def _inplace(self, f, *others, cast=True):
        ops = []
        for o in others:
            if isinstance(o, Tensor):
                ops.append(o.expand(self._size)._vals() if tuple(o._size) != tuple(self._size) else o._vals())
                if tuple(_broadcast_sizes(self._size, o._size)) != tuple(self._size):
                    raise RuntimeError(f'output with shape {list(self._size)} doesn\'t match the broadcast shape')
            else:
                ops.append(itertools.repeat(o))
        mine = self._vals()
        vals = [f(a, *rest) for a, *rest in zip(mine, *ops)] if ops else [f(a) for a in mine]
        if cast:
            dt = self.dtype
            vals = [_cast(v, dt) for v in vals]
        _note_inplace(self, others)
        return self._write(vals)

    def copy_(self, src):
        if not isinstance(src, Tensor):
            return self.fill_(src)
        was = (self._untracked, self._base._untracked if self._base is not None else False)
        self._inplace(lambda a, b: b, src)
        if _GRAD_ENABLED[0] and src.requires_grad and not src._untracked and self.dtype.kind == 'f':
            # a differentiable copy: recorded, so that to_dense() of a tracked tensor stays tracked
            self._untracked = was[0]
            if self._base is not None:
                self._base._untracked = was[1]
            autograd._TAPE.append(('copy', src if tuple(src._size) == tuple(self._size) else src.expand(self._size), self))
        return self

    def fill_(self, v):
        if isinstance(v, Tensor):
            if v.numel() != 1:
                raise RuntimeError('fill_ only supports 0-dimension value tensor')
            v = v._get((0,) * v.dim())
        return self._inplace(lambda a: v)

    def zero_(self):
        return self.fill_(0)

    def masked_fill_(self, mask, value):
        if mask.dtype.kind != 'b':
            raise RuntimeError('masked_fill_ only supports boolean masks')
        if isinstance(value, Tensor):
            value = value._get((0,) * value.dim())
        value = _cast(value, self.dtype)
        return self._inplace(lambda a, m: sx.ite(m, value, a), mask)

    def masked_fill(self, mask, value):
        return self.clone().masked_fill_(mask, value)

    def add_(self, o, alpha=1):
        return self._inplace(_f_add(self.dtype, alpha), o)

    def sub_(self, o, alpha=1):
        if self.dtype.kind == 'b':
            raise RuntimeError('Subtraction, the `-` operator, with a bool tensor is not supported.')
        return self._inplace(lambda a, b: sx.sub(a, b if alpha == 1 else sx.mul(alpha, b)), o)

    def mul_(self, o):
        return self._inplace(_f_mul(self.dtype), o)

    def div_(self, o):
        return self._inplace(sx.div, o)

    def neg_(self):
        return self._inplace(sx.neg)

    def exp_(self):
        return self._inplace(sx.exp, cast=False)

    def log_(self):
        return self._inplace(sx.log, cast=False)

    def log1p_(self):
        return self._inplace(sx.log1p, cast=False)

    def abs_(self):
        return self._inplace(sx.absval)

    def relu_(self):
        return self._inplace(sx.relu)

    def reciprocal_(self):
        return self._inplace(sx.recip)

    def logical_or_(self, o):
        return self._inplace(lambda a, b: sx.Or(sx.to_bool(a), sx.to_bool(b)), o)

    def logical_and_(self, o):
        return self._inplace(lambda a, b: sx.And(sx.to_bool(a), sx.to_bool(b)), o)

    def logical_not_(self):
        return self._inplace(lambda a: sx.Not(sx.to_bool(a)))

    def nan_to_num_(self, nan=0.0, posinf=None, neginf=None):
        f = _f_nan_to_num(self.dtype, nan, posinf, neginf)
        return self._inplace(f, cast=False)

    def clamp_min_(self, m):
        return self._inplace(lambda a: sx.maximum(a, m))

    def clamp_max_(self, m):
        return self._inplace(lambda a: sx.minimum(a, m))

    __iadd__ = add_
    __isub__ = sub_
    __imul__ = mul_
    __itruediv__ = div_

    def __ior__(self, o):
        return self.logical_or_(o)

    def __iand__(self, o):
        return self.logical_and_(o)

    # ---- out-of-place elementwise
    def add(self, o, alpha=1):
        return _ewise(_f_add(_promote(self, o), alpha), (self, o))

    def sub(self, o, alpha=1):
        if self.dtype.kind == 'b' and (not isinstance(o, Tensor) or o.dtype.kind == 'b'):
            raise RuntimeError('Subtraction, the `-` operator, with two bool tensors is not supported.')
        return _ewise(lambda a, b: sx.sub(a, b if alpha == 1 else sx.mul(alpha, b)), (self, o))

    def mul(self, o):
        return _ewise(_f_mul(_promote(self, o)), (self, o))

    def div(self, o):
        return _ewise(sx.div, (self, o), force_float=True)

    true_divide = div

    def __add__(self, o):
        return self.add(o)

    __radd__ = __add__

    def __sub__(self, o):
        return self.sub(o)

    def __rsub__(self, o):
        return _ewise(lambda a, b: sx.sub(b, a), (self, o))

    def __mul__(self, o):
        return self.mul(o)

    __rmul__ = __mul__

    def __truediv__(self, o):
        return self.div(o)

    def __rtruediv__(self, o):
        return _ewise(lambda a, b: sx.div(b, a), (self, o), force_float=True)

    __rdiv__ = __rtruediv__

    def __neg__(self):
        return self.neg()

    def __matmul__(self, o):
        if self.dim() == 2 and o.dim() == 1:
            return mv(self, o)
        if self.dim() == 2 and o.dim() == 2:
            return mm(self, o)
        if self.dim() == 1 and o.dim() == 1:
            return self.mul(o).sum()
        if self.dim() == 1 and o.dim() == 2:
            return mv(o.t(), self)
        raise Unmodelled('matmul of these ranks')

    def __pow__(self, p):
        if p == 2:
            return self.mul(self)
        if p == 1:
            return self.clone()
        raise Unmodelled('pow')

    def neg(self):
        if self.dtype.kind == 'b':
            raise RuntimeError('Negation, the `-` operator, on a bool tensor is not supported.')
        return _ewise(sx.neg, (self,))

    def abs(self):
        return _ewise(sx.absval, (self,))

    def relu(self):
        return _ewise(sx.relu, (self,))

    def reciprocal(self):
        return _ewise(sx.recip, (self,), force_float=True)

    def exp(self):
        r = _ewise(sx.exp, (self,), force_float=True, cast=False)
        if r._untracked and not self._untracked:
            r._untracked = False
            autograd._TAPE.append(('unary', self, r, r._vals()))
        return r

    def expm1(self):
        return _ewise(sx.expm1, (self,), force_float=True, cast=False)

    def log(self):
        return _ewise(sx.log, (self,), force_float=True, cast=False)

    def log1p(self):
        return _ewise(sx.log1p, (self,), force_float=True, cast=False)

    def nan_to_num(self, nan=0.0, posinf=None, neginf=None):
        return _ewise(_f_nan_to_num(self.dtype, nan, posinf, neginf), (self,), cast=False)

    def clamp_min(self, m):
        return _ewise(lambda a: sx.maximum(a, m), (self,))

    def clamp_max(self, m):
        return _ewise(lambda a: sx.minimum(a, m), (self,))

    def clamp(self, min=None, max=None):
        r = self
        if min is not None:
            r = r.clamp_min(min)
        if max is not None:
            r = r.clamp_max(max)
        return r

    def maximum(self, o):
        return _ewise(sx.maximum, (self, o))

    def minimum(self, o):
        return _ewise(sx.minimum, (self, o))

    def logaddexp(self, o):
        return _ewise(_logaddexp, (self, o), cast=False)

    def logical_and(self, o):
        return _ewise(lambda a, b: sx.And(sx.to_bool(a), sx.to_bool(b)), (self, o), out_dtype=bool)

    def logical_or(self, o):
        return _ewise(lambda a, b: sx.Or(sx.to_bool(a), sx.to_bool(b)), (self, o), out_dtype=bool)

    def logical_not(self):
        return _ewise(lambda a: sx.Not(sx.to_bool(a)), (self,), out_dtype=bool)

    def __invert__(self):
        if self.dtype.kind != 'b':
            raise Unmodelled('bitwise not on non-bool')
        return self.logical_not()

    def __and__(self, o):
        if self.dtype.kind != 'b':
            raise Unmodelled('bitwise and on non-bool')
        return self.logical_and(o)

    def __or__(self, o):
        if self.dtype.kind != 'b':
            raise Unmodelled('bitwise or on non-bool')
        return self.logical_or(o)

    def eq(self, o):
        return _ewise(sx.eq, (self, o), out_dtype=bool)

    def ne(self, o):
        return _ewise(sx.ne, (self, o), out_dtype=bool)

    def lt(self, o):
        return _ewise(sx.lt, (self, o), out_dtype=bool)

    def le(self, o):
        return _ewise(sx.le, (self, o), out_dtype=bool)

    def gt(self, o):
        return _ewise(sx.gt, (self, o), out_dtype=bool)

    def ge(self, o):
        return _ewise(sx.ge, (self, o), out_dtype=bool)

    __eq__ = eq
    __ne__ = ne
    __lt__ = lt
    __le__ = le
    __gt__ = gt
    __ge__ = ge

    def isinf(self):
        return _ewise(sx.isinf, (self,), out_dtype=bool)

    def isnan(self):
        return _ewise(sx.isnan, (self,), out_dtype=bool)

    def isposinf(self):
        return _ewise(lambda a: sx.And(sx.isinf(a), sx.gt(a, 0.0)), (self,), out_dtype=bool)

    def isneginf(self):
        return _ewise(lambda a: sx.And(sx.isinf(a), sx.lt(a, 0.0)), (self,), out_dtype=bool)

    def isfinite(self):
        return _ewise(lambda a: sx.Not(sx.Or(sx.isinf(a), sx.isnan(a))), (self,), out_dtype=bool)

    def isclose(self, o, rtol=1e-05, atol=1e-08, equal_nan=False):
        return _ewise(lambda a, b: sx.isclose(a, b, rtol, atol, equal_nan), (self, o), out_dtype=bool)

    def allclose(self, o, rtol=1e-05, atol=1e-08, equal_nan=False):
        c = self.isclose(o, rtol, atol, equal_nan)
        return symx.branch(reduce(sx.And, c._vals(), True))

    def equal(self, o):
        if tuple(self._size) != tuple(o._size):
            return False
        return symx.branch(reduce(sx.And, (sx.eq(a, b) for a, b in zip(self._vals(), o._vals())), True))

    def where(self, cond, other):
        return where(cond, self, other)

    # ---- reductions
    def _reduce(self, f, init, dim=None, keepdim=False, out_dtype=None, pre=None):
        n = self.dim()
        if dim is None or (isinstance(dim, (tuple, list)) and len(dim) == 0 and False):
            dims = tuple(range(n))
        elif isinstance(dim, _b.int):
            dims = (_wrap_dim(dim, n),)
        else:
            dims = tuple(_wrap_dim(d, n) for d in dim)
        keep = [d for d in range(n) if d not in dims]
        osz = [self._size[d] for d in keep]
        acc = {}
        for ix in self._idx():
            k = tuple(ix[d] for d in keep)
            v = self._get(ix)
            if pre is not None:
                v = pre(v)
            acc[k] = f(acc[k], v) if k in acc else (v if init is None else f(init, v))
        vals = []
        for k in itertools.product(*[range(s) for s in osz]):
            if k in acc:
                vals.append(acc[k])
            else:
                if init is None:
                    raise RuntimeError('reduction over an empty dimension with no identity')
                vals.append(init)
        dt = out_dtype or self.dtype
        r = _result(vals, osz, dt, (self,))
        if keepdim:
            for d in sorted(dims):
                r = r.unsqueeze(d)
        return r

    def sum(self, dim=None, keepdim=False, dtype=None):
        if self.dtype.kind in 'bi':
            return self._reduce(sx.add, 0, dim, keepdim, out_dtype=int64, pre=lambda v: _cast(v, int64))
        return self._reduce(sx.add, 0.0, dim, keepdim)

    def any(self, dim=None, keepdim=False):
        return self._reduce(sx.Or, False, dim, keepdim, out_dtype=bool, pre=sx.to_bool)

    def all(self, dim=None, keepdim=False):
        return self._reduce(sx.And, True, dim, keepdim, out_dtype=bool, pre=sx.to_bool)

    def amax(self, dim=None, keepdim=False):
        if dim is None or (isinstance(dim, (tuple, list)) and len(dim) == 0):
            dim = None
        return self._reduce(sx.maximum, None, dim, keepdim)

    def amin(self, dim=None, keepdim=False):
        return self._reduce(sx.minimum, None, dim, keepdim)

    def max(self, dim=None, keepdim=False):
        if isinstance(dim, Tensor):
            return self.maximum(dim)
        if dim is None:
            return self._reduce(sx.maximum, None, None, False)
        return _max_dim(self, dim, keepdim)

    def min(self, dim=None, keepdim=False):
        if dim is None:
            return self._reduce(sx.minimum, None, None, False)
        raise Unmodelled('_b.min(dim)')

    def logsumexp(self, dim, keepdim=False):
        return self._reduce(_logaddexp, None, dim, keepdim)

    def log_softmax(self, dim):
        dim = _wrap_dim(dim, self.dim())
        lse = self.logsumexp(dim, keepdim=True)
        return _ewise(sx.sub, (self, lse), cast=False)

    def norm(self, p=2, dim=None, keepdim=False):
        if p == 1:
            return self.abs().sum(dim, keepdim)
        if p == math.inf:
            return self.abs().amax(dim, keepdim)
        raise Unmodelled('norm p=%r' % (p,))

    def gather(self, dim, index):
        return gather(self, dim, index)

    # ---- conversions / factories
    def to(self, *args, dtype=None, device=None, **kw):
        for a in args:
            if isinstance(a, globals()['dtype']):
                dtype = a
        if dtype is None or dtype is self.dtype:
            return self
        return _ewise(lambda a: _cast(a, dtype), (self,), out_dtype=dtype, cast=False)

    def type(self, dtype=None):
        return self.to(dtype=dtype)

    def float(self):
        return self.to(dtype=float32)

    def double(self):
        return self.to(dtype=float64)

    def long(self):
        return self.to(dtype=int64)

    def int(self):
        return self.to(dtype=int32)

    def bool(self):
        return self.to(dtype=bool)

    def cpu(self):
        return self

    def numpy(self):
        raise Unmodelled('numpy()')

    def new_full(self, size, fill_value, dtype=None, device=None):
        return full(size, fill_value, dtype=dtype or self.dtype)

    def new_zeros(self, size, dtype=None, device=None):
        size = _norm_size((size,)) if not isinstance(size, _b.int) else (size,)
        return full(size, 0, dtype=dtype or self.dtype)

    def new_ones(self, size, dtype=None, device=None):
        size = _norm_size((size,)) if not isinstance(size, _b.int) else (size,)
        return full(size, 1, dtype=dtype or self.dtype)

    def new_empty(self, size, dtype=None, device=None):
        size = _norm_size((size,)) if not isinstance(size, _b.int) else (size,)
        return full(size, 0, dtype=dtype or self.dtype)

    def new_tensor(self, data, dtype=None, device=None):
        return tensor(data, dtype=dtype or self.dtype)

    def backward(self, gradient=None):
        from . import autograd as _ag
        _ag.backward([self], [gradient])

    def __repr__(self):
        try:
            return f'tensor({self.tolist() if self.numel() < 50 else "..."}, size={tuple(self._size)}, dtype={self.dtype})'
        except BaseException:
            return f'tensor(<symbolic>, size={tuple(self._size)}, dtype={self.dtype})'

    def __format__(self, spec):
        if self.dim() == 0:
            return format(self.item(), spec)
        return repr(self)

    def __deepcopy__(self, memo):
        t = Tensor._new(self._vals(), self._size, self.dtype, _like_strides(self._size, self._stride))
        t.requires_grad = self.requires_grad
        return t

    def __getattr__(self, name):
        if name.startswith('__'):
            raise AttributeError(name)
        raise UnmodelledAttr(f'Tensor.{name}')


class LongTensor(Tensor):
    pass


class FloatTensor(Tensor):
    pass


class BoolTensor(Tensor):
    pass


# --------------------------------------------------------------------------
# kernels


def _concretize(v):
    if isinstance(v, (_b.bool, _b.int, _b.float)):
        return v
    if isinstance(v, z3.BoolRef):
        return symx.branch(v)
    if isinstance(v, z3.ArithRef) and v.is_int():
        return symx.choose(v)
    if isinstance(v, sx.SX):
        c = v.collapse()
        if not isinstance(c, sx.SX):
            return c
    if isinstance(v, sx.LogV):
        c = v.concrete()
        if c is not None:
            return c
    raise Unmodelled('item() of a symbolic float')


def _promote(*ops):
    """result dtype of an arithmetic op"""
    best = None
    rank = {'b': 0, 'i': 1, 'f': 2}
    for o in ops:
        if isinstance(o, Tensor) and o.dim() > 0:
            if best is None or rank[o.dtype.kind] > rank[best.kind] or \
                    (o.dtype.kind == best.kind and o.dtype.bits > best.bits):
                best = o.dtype
    zero_dim = [o for o in ops if isinstance(o, Tensor) and o.dim() == 0]
    for o in zero_dim:
        if best is None:
            best = o.dtype
        elif rank[o.dtype.kind] > rank[best.kind]:
            best = o.dtype if o.dtype.kind != 'f' or best.kind != 'f' else best
    for o in ops:
        if isinstance(o, Tensor):
            continue
        k = _kind_of_scalar(o)
        if best is None:
            best = {'b': bool, 'i': int64, 'f': get_default_dtype()}[k]
        elif rank[k] > rank[best.kind]:
            best = {'i': int64, 'f': get_default_dtype()}[k]
    return best


def _note_inplace(dst, others):
    if _GRAD_ENABLED[0]:
        src_grad = _b.any(isinstance(o, Tensor) and o.requires_grad for o in others)
        if src_grad or dst.requires_grad:
            for t in (dst, dst._base):
                if t is None:
                    continue
                t._untracked = True
                if src_grad and t.dtype.kind == 'f':
                    t.requires_grad = True
                    t.is_leaf = False


def _result(vals, size, dt, inputs, strides=None):
    t = Tensor._new(vals, size, dt, strides)
    if _GRAD_ENABLED[0] and _b.any(isinstance(i, Tensor) and i.requires_grad for i in inputs) and dt.kind == 'f':
        t.requires_grad = True
        t._untracked = True
        t.is_leaf = False
    return t


def _ewise(f, ops, out_dtype=None, force_float=False, cast=True):
    tens = [o for o in ops if isinstance(o, Tensor)]
    size = _broadcast_sizes(*[t._size for t in tens])
    cols = []
    for o in ops:
        if isinstance(o, Tensor):
            cols.append((o if tuple(o._size) == size else o.expand(size))._vals())
        else:
            cols.append(itertools.repeat(o))
    vals = [f(*xs) for xs in zip(*cols)] if size != () or True else None
    if out_dtype is None:
        out_dtype = _promote(*ops)
        if force_float and out_dtype.kind != 'f':
            out_dtype = get_default_dtype()
    if cast:
        vals = [_cast(v, out_dtype) for v in vals]
    # output layout follows the first full-shape dense operand (TensorIterator)
    strides = None
    for t in tens:
        if tuple(t._size) == size and len(size) > 1:
            strides = _like_strides(t._size, t._stride) if _is_nod(t._size, t._stride) else None
            break
    return _result(vals, size, out_dtype, tens, strides)


def _f_add(dt, alpha=1):
    if dt is not None and dt.kind == 'b':
        return lambda a, b: sx.Or(sx.to_bool(a), sx.to_bool(b))
    if alpha == 1:
        return sx.add
    return lambda a, b: sx.add(a, sx.mul(alpha, b))


def _f_mul(dt):
    if dt is not None and dt.kind == 'b':
        return lambda a, b: sx.And(sx.to_bool(a), sx.to_bool(b))
    return sx.mul


def _f_nan_to_num(dt, nan, posinf, neginf):
    if dt.kind != 'f':
        return lambda a: a
    fi = finfo(dt)
    if nan is None:
        nan = 0.0
    p = fi.max if posinf is None else _b.float(posinf)
    n = fi.min if neginf is None else _b.float(neginf)
    nan = _b.float(nan)
    return lambda a: sx.nan_to_num(a, nan, p, n)


def _logaddexp(a, b):
    if isinstance(a, sx.LogV) or isinstance(b, sx.LogV):
        a, b = sx.as_log(a), sx.as_log(b)
        return sx.LogV(sx.add(a.e, b.e))
    if isinstance(a, (_b.int, _b.float)) and isinstance(b, (_b.int, _b.float)):
        a = _b.float(a); b = _b.float(b)
        if math.isnan(a) or math.isnan(b):
            return math.nan
        m = _b.max(a, b)
        if m == -math.inf:
            return -math.inf
        if m == math.inf:
            return math.inf
        return m + math.log(math.exp(a - m) + math.exp(b - m))
    # linear-domain symbolic values (Viterbi regime) have no logaddexp reading
    raise Unmodelled('logaddexp of symbolic linear-domain values')


def _max_dim(t, dim, keepdim):
    dim = _wrap_dim(dim, t.dim())
    n = t._size[dim]
    if n == 0:
        raise RuntimeError('_b.max(): Expected reduction dim to have non-zero size')
    osz = t._size[:dim] + t._size[dim + 1:]
    vals = []
    idxs = []
    for k in itertools.product(*[range(s) for s in osz]):
        best = None
        bi = 0
        for i in range(n):
            v = t._get(k[:dim] + (i,) + k[dim:])
            if best is None:
                best, bi = v, 0
            else:
                c = sx.lt(best, v)
                best = sx.ite(c, v, best)
                bi = sx.IteI(c, i, bi)
        vals.append(best)
        idxs.append(bi)
    v = _result(vals, osz, t.dtype, (t,))
    ix = Tensor._new(idxs, osz, int64)
    if keepdim:
        v, ix = v.unsqueeze(dim), ix.unsqueeze(dim)
    return _MaxResult((v, ix))


class _MaxResult(tuple):
    @property
    def values(self):
        return self[0]

    @property
    def indices(self):
        return self[1]


def gather(x, dim, index):
    dim = _wrap_dim(dim, x.dim())
    n = x._size[dim]
    vals = []
    for ix in index._idx():
        i = index._get(ix)
        if isinstance(i, _b.int):
            vals.append(x._get(ix[:dim] + (i,) + ix[dim + 1:]))
        else:
            cand = [x._get(ix[:dim] + (j,) + ix[dim + 1:]) for j in range(n)]
            r = cand[-1]
            for j in range(n - 2, -1, -1):
                r = sx.ite(i == j, cand[j], r)
            vals.append(r)
    return _result(vals, index._size, x.dtype, (x,))


# --------------------------------------------------------------------------
# module-level functions


def _flatten_data(d):
    if isinstance(d, Tensor):
        if d.dim() == 0:
            return (), [d._get(())]
        d = [d[i] for i in range(d._size[0])]
    if isinstance(d, (list, tuple)):
        if len(d) == 0:
            return (0,), []
        parts = [_flatten_data(e) for e in d]
        sh = parts[0][0]
        for s, _ in parts:
            if s != sh:
                raise ValueError('expected sequence of equal length')
        return (len(d),) + tuple(sh), [x for _, vs in parts for x in vs]
    return (), [d]


def tensor(data, dtype=None, device=None, requires_grad=False):
    if isinstance(data, Tensor):
        sz, vals = tuple(data._size), data._vals()
        src_dt = data.dtype
    else:
        sz, vals = _flatten_data(data)
        src_dt = None
    if dtype is None:
        if src_dt is not None:
            dtype = src_dt
        else:
            ks = {_kind_of_scalar(v) for v in vals}
            dtype = get_default_dtype() if ('f' in ks or not ks) else (int64 if 'i' in ks else bool)
    t = Tensor._new([_cast(v, dtype) for v in vals], sz, dtype)
    t.requires_grad = requires_grad
    return t


def as_tensor(data, dtype=None, device=None):
    if isinstance(data, Tensor):
        return data if dtype is None or dtype is data.dtype else data.to(dtype=dtype)
    return tensor(data, dtype=dtype)


asarray = as_tensor


def full(size, fill_value, dtype=None, device=None, requires_grad=False):
    size = _norm_size((size,)) if not isinstance(size, _b.int) else (size,)
    if isinstance(fill_value, Tensor):
        fill_value = fill_value._get((0,) * fill_value.dim())
    if dtype is None:
        dtype = {'b': bool, 'i': int64, 'f': get_default_dtype()}[_kind_of_scalar(fill_value)]
    v = _cast(fill_value, dtype)
    return Tensor._new([v] * Size(size).numel(), size, dtype)


def zeros(*size, dtype=None, device=None, requires_grad=False):
    return full(_norm_size(size), 0, dtype=dtype or get_default_dtype())


def ones(*size, dtype=None, device=None, requires_grad=False):
    return full(_norm_size(size), 1, dtype=dtype or get_default_dtype())


def empty(*size, dtype=None, device=None):
    return full(_norm_size(size), 0, dtype=dtype or get_default_dtype())


def full_like(t, v, dtype=None):
    return full(t._size, v, dtype=dtype or t.dtype)


def zeros_like(t, dtype=None):
    return full(t._size, 0, dtype=dtype or t.dtype)


def ones_like(t, dtype=None):
    return full(t._size, 1, dtype=dtype or t.dtype)


def eye(n, m=None, dtype=None, device=None):
    m = n if m is None else m
    dtype = dtype or get_default_dtype()
    return Tensor._new([_cast(1 if i == j else 0, dtype) for i in range(n) for j in range(m)], (n, m), dtype)


def arange(*a, dtype=None, device=None):
    if _b.all(isinstance(x, _b.int) for x in a):
        r = list(range(*a))
        return Tensor._new([_cast(x, dtype) for x in r] if dtype else r, (len(r),), dtype or int64)
    start, end, step = (0, a[0], 1) if len(a) == 1 else (a[0], a[1], 1) if len(a) == 2 else a
    n = _b.max(0, math.ceil((end - start) / step))
    dtype = dtype or get_default_dtype()
    return Tensor._new([_cast(start + i * step, dtype) for i in range(n)], (n,), dtype)


def stack(tensors, dim=0):
    tensors = list(tensors)
    if not tensors:
        raise RuntimeError('stack expects a non-empty TensorList')
    sz = tuple(tensors[0]._size)
    for t in tensors:
        if tuple(t._size) != sz:
            raise RuntimeError('stack expects each tensor to be equal size')
    dim = _wrap_dim(dim, len(sz), 1)
    osz = sz[:dim] + (len(tensors),) + sz[dim:]
    vals = [tensors[ix[dim]]._get(ix[:dim] + ix[dim + 1:]) for ix in itertools.product(*[range(s) for s in osz])]
    return _result(vals, osz, _promote(*tensors), tensors)


def cat(tensors, dim=0):
    tensors = list(tensors)
    dim = _wrap_dim(dim, tensors[0].dim())
    parts = [t.unbind(dim) for t in tensors]
    return stack([p for ps in parts for p in ps], dim)


def where(cond, a=None, b=None):
    if a is None:
        raise Unmodelled('where(cond)')
    if not isinstance(cond, Tensor):
        raise TypeError('where(): condition must be a tensor')
    if cond.dtype.kind != 'b':
        raise RuntimeError('where expected condition to be a boolean tensor')
    dt = _promote(*[x for x in (a, b)])
    ta = isinstance(a, Tensor)
    tb = isinstance(b, Tensor)
    if ta and tb and a.dtype is not b.dtype and a.dim() > 0 and b.dim() > 0 and False:
        pass
    return _ewise(lambda c, x, y: sx.ite(c, _cast(x, dt), _cast(y, dt)), (cond, a, b), out_dtype=dt, cast=False)


def _out(r, out):
    if out is None:
        return r
    if tuple(out._size) != tuple(r._size):
        if out.numel() != 0 and False:
            pass
        raise Unmodelled('out= with resize')
    out.copy_(r) if out.dtype is r.dtype else out._inplace(lambda a, b: b, r, cast=False)
    return out


def _out_nocast(r, out):
    if out is None:
        return r
    if tuple(out._size) != tuple(r._size):
        raise Unmodelled('out= with resize')
    _note_inplace(out, ())
    out._write(r._vals())
    return out


def maximum(a, b, out=None):
    return _out_nocast(a.maximum(b), out)


def minimum(a, b, out=None):
    return _out_nocast(a.minimum(b), out)


def max(a, b=None, dim=None, keepdim=False, out=None):
    if isinstance(b, Tensor):
        return maximum(a, b, out=out)
    if b is not None and dim is None:
        dim = b
    return a.max(dim, keepdim)


def min(a, b=None, dim=None, keepdim=False, out=None):
    if isinstance(b, Tensor):
        return minimum(a, b, out=out)
    if b is not None and dim is None:
        dim = b
    return a.min(dim, keepdim)


def amax(a, dim=None, keepdim=False):
    return a.amax(dim, keepdim)


def logaddexp(a, b, out=None):
    return _out_nocast(a.logaddexp(b), out)


def logsumexp(a, dim, keepdim=False):
    return a.logsumexp(dim, keepdim)


def nan_to_num(a, nan=0.0, posinf=None, neginf=None, out=None):
    return _out_nocast(a.nan_to_num(nan, posinf, neginf), out)


def sum(a, dim=None, keepdim=False, dtype=None):
    return a.sum(dim, keepdim)


def any(a, dim=None, keepdim=False):
    return a.any(dim, keepdim)


def all(a, dim=None, keepdim=False):
    return a.all(dim, keepdim)


def as_strided(t, size, stride, storage_offset=None):
    return t.as_strided(size, stride, storage_offset)


def unsqueeze(t, d):
    return t.unsqueeze(d)


def squeeze(t, d=None):
    return t.squeeze(d)


def _unary(name):
    def f(t, out=None):
        return _out_nocast(getattr(t, name)(), out)
    f.__name__ = name
    return f


log = _unary('log')
log1p = _unary('log1p')
exp = _unary('exp')
expm1 = _unary('expm1')
abs = _unary('abs')
neg = _unary('neg')
isinf = _unary('isinf')
isnan = _unary('isnan')
isposinf = _unary('isposinf')
isneginf = _unary('isneginf')
isfinite = _unary('isfinite')
logical_not = _unary('logical_not')
relu = _unary('relu')
clone = _unary('clone')


def _binary(name):
    def f(a, b, out=None):
        if not isinstance(a, Tensor):
            a = tensor(a)
        return _out_nocast(getattr(a, name)(b), out)
    f.__name__ = name
    return f


eq = _binary('eq')
ne = _binary('ne')
lt = _binary('lt')
le = _binary('le')
gt = _binary('gt')
ge = _binary('ge')
add = _binary('add')
sub = _binary('sub')
mul = _binary('mul')
div = _binary('div')
logical_and = _binary('logical_and')
logical_or = _binary('logical_or')


def equal(a, b):
    return a.equal(b)


def allclose(a, b, rtol=1e-05, atol=1e-08, equal_nan=False):
    return a.allclose(b, rtol, atol, equal_nan)


def isclose(a, b, rtol=1e-05, atol=1e-08, equal_nan=False):
    return a.isclose(b, rtol, atol, equal_nan)


def is_tensor(x):
    return isinstance(x, Tensor)


def numel(t):
    return t.numel()


import random as _random

_rng = _random.Random(0)


def manual_seed(s):
    _rng.seed(s)


def rand(*size, dtype=None, device=None, requires_grad=False):
    size = _norm_size(size)
    t = Tensor._new([_rng.random() for _ in range(Size(size).numel())], size, dtype or get_default_dtype())
    t.requires_grad = requires_grad
    return t


def randn(*size, dtype=None, device=None, requires_grad=False):
    size = _norm_size(size)
    t = Tensor._new([_rng.gauss(0, 1) for _ in range(Size(size).numel())], size, dtype or get_default_dtype())
    t.requires_grad = requires_grad
    return t


def randint(low, high=None, size=None, dtype=None, device=None):
    if size is None:
        low, high, size = 0, low, high
    size = _norm_size((size,))
    return Tensor._new([_rng.randrange(low, high) for _ in range(Size(size).numel())], size, dtype or int64)


def diag(t):
    if t.dim() == 1:
        n = t._size[0]
        z = _cast(0, t.dtype)
        return _result([t._get((i,)) if i == j else z for i in range(n) for j in range(n)], (n, n), t.dtype, (t,))
    return t.diagonal().clone()


def mv(a, v):
    return a.mul(v).sum(1)


def mm(a, b):
    return a.unsqueeze(-1).mul(b).sum(1)


matmul = mm


def norm(t, p=2, dim=None, keepdim=False):
    if p == 2 and dim is None:
        return linalg.norm(t)
    return t.norm(p, dim, keepdim)


def einsum(*a, **k):
    raise Unmodelled('torch.einsum')


from . import linalg      # noqa: E402
from . import autograd    # noqa: E402
from . import nn          # noqa: E402


def __getattr__(name):
    if name.startswith('__'):
        raise AttributeError(name)
    raise UnmodelledAttr(f'torch.{name}')
