"""torch.linalg.solve as a contract stub: for a square system of order n <= 3
the unique solution is given in closed form (adjugate / determinant); a
singular matrix raises RuntimeError like torch does.  A concrete matrix with a
symbolic right-hand side (any order) is eliminated on the floats.  The path forks on
det(a) == 0.  Pivoting and rounding are not modelled."""
import itertools
import sx
import symx
from sx import Unmodelled


def _det(m):
    n = len(m)
    if n == 0:
        return 1.0
    if n == 1:
        return m[0][0]
    if n == 2:
        return sx.sub(sx.mul(m[0][0], m[1][1]), sx.mul(m[0][1], m[1][0]))
    acc = 0.0
    for j in range(n):
        minor = [[m[i][k] for k in range(n) if k != j] for i in range(1, n)]
        t = sx.mul(m[0][j], _det(minor))
        acc = sx.add(acc, t) if j % 2 == 0 else sx.sub(acc, t)
    return acc


def solve(a, b, *, left=True, out=None):
    from . import Tensor, _result, tensor
    if a.dim() != 2 or a.size(0) != a.size(1):
        raise Unmodelled('linalg.solve: batched or non-square input')
    n = a.size(0)
    if b.dim() not in (1, 2) or b.size(0) != n:
        raise RuntimeError('linalg.solve: incompatible shapes')
    A = [[a._get((i, j)) for j in range(n)] for i in range(n)]
    if all(isinstance(v, (int, float)) for row in A for v in row) and \
            all(isinstance(v, (int, float)) for v in b._vals()):
        return _solve_concrete(A, a, b)
    if all(isinstance(v, (int, float)) for row in A for v in row):
        return _solve_concrete_matrix(A, a, b)
    if n > 3:
        raise Unmodelled('linalg.solve of order > 3 on symbolic values')
    for row in A:
        for v in row:
            if isinstance(v, sx.LogV):
                raise Unmodelled('linalg.solve on log-domain values')
    nonfinite = False
    for i in range(n):
        for j in range(n):
            v = A[i][j]
            if isinstance(v, float) and (v != v or v in (float('inf'), float('-inf'))):
                nonfinite = True
            elif isinstance(v, sx.SX) and not (v.nan is False and v.pinf is False and v.ninf is False):
                # usually the caller has just tested for infinities: the path condition decides this without forking
                if symx.branch(sx.Or(v.nan, v.pinf, v.ninf)):
                    nonfinite = True
                else:
                    A[i][j] = sx.SX(v.v, sg=v.sg)
    if nonfinite:
        # LAPACK on non-finite input: the documented contract says nothing about the result (in practice
        # nan, -0.0 or garbage without an error) -- modelled as arbitrary values of the result type
        size = (n,) if b.dim() == 1 else (n, b.size(1))
        cnt = 1
        for s_ in size:
            cnt *= s_
        return _result([sx.fresh_unspecified('linalg') for _ in range(cnt)], size, a.dtype, (a, b))
    d = _det(A)
    singular = sx.eq(d, 0.0)
    if symx.branch(singular):
        raise RuntimeError('torch.linalg.solve: The solver failed because the input matrix is singular.')
    cols = [[b._get((i,)) for i in range(n)]] if b.dim() == 1 else \
        [[b._get((i, c)) for i in range(n)] for c in range(b.size(1))]
    sols = []
    for col in cols:
        xs = []
        for j in range(n):
            Aj = [[col[i] if k == j else A[i][k] for k in range(n)] for i in range(n)]
            xs.append(sx.div(_det(Aj), d))
        sols.append(xs)
    if b.dim() == 1:
        vals = sols[0]
        size = (n,)
    else:
        vals = [sols[c][i] for i in range(n) for c in range(len(cols))]
        size = (n, len(cols))
    return _result(vals, size, a.dtype, (a, b))


def _solve_concrete_matrix(A, a, b):
    """concrete matrix, symbolic right-hand side: Gaussian elimination with partial pivoting on the floats,
    the row operations applied to the symbolic entries (exact as long as the float operations are)"""
    import math
    from . import _result
    n = len(A)
    if any(math.isnan(float(x)) or math.isinf(float(x)) for row in A for x in row):
        size = (n,) if b.dim() == 1 else (n, b.size(1))
        cnt = n if b.dim() == 1 else n * b.size(1)
        return _result([sx.fresh_unspecified('linalg') for _ in range(cnt)], size, a.dtype, (a, b))
    ncol = 1 if b.dim() == 1 else b.size(1)
    R = [[b._get((i,)) if b.dim() == 1 else b._get((i, c)) for c in range(ncol)] for i in range(n)]
    M = [[float(x) for x in row] for row in A]
    for k in range(n):
        p = max(range(k, n), key=lambda i: abs(M[i][k]))
        if M[p][k] == 0:
            raise RuntimeError('torch.linalg.solve: The solver failed because the input matrix is singular.')
        M[k], M[p] = M[p], M[k]
        R[k], R[p] = R[p], R[k]
        for i in range(k + 1, n):
            f = M[i][k] / M[k][k]
            if f == 0:
                continue
            for j in range(k, n):
                M[i][j] -= f * M[k][j]
            R[i] = [sx.sub(R[i][c], sx.mul(f, R[k][c])) for c in range(ncol)]
    X = [[0.0] * ncol for _ in range(n)]
    for c in range(ncol):
        for i in range(n - 1, -1, -1):
            s_ = R[i][c]
            for j in range(i + 1, n):
                if M[i][j] != 0:
                    s_ = sx.sub(s_, sx.mul(M[i][j], X[j][c]))
            X[i][c] = sx.div(s_, M[i][i])
    if b.dim() == 1:
        return _result([X[i][0] for i in range(n)], (n,), a.dtype, (a, b))
    return _result([X[i][c] for i in range(n) for c in range(ncol)], (n, ncol), a.dtype, (a, b))


def _solve_concrete(A, a, b):
    """Gaussian elimination with partial pivoting on concrete floats"""
    import math
    from . import _result
    n = len(A)
    cols = [[float(b._get((i,))) for i in range(n)]] if b.dim() == 1 else \
        [[float(b._get((i, c))) for i in range(n)] for c in range(b.size(1))]
    M = [[float(x) for x in row] + [col[i] for col in cols] for i, row in enumerate(A)]
    if any(math.isnan(x) or math.isinf(x) for row in A for x in row):
        raise RuntimeError('torch.linalg.solve: The solver failed because the input matrix is singular.')
    for k in range(n):
        p = max(range(k, n), key=lambda i: abs(M[i][k]))
        if M[p][k] == 0:
            raise RuntimeError('torch.linalg.solve: The solver failed because the input matrix is singular.')
        M[k], M[p] = M[p], M[k]
        for i in range(k + 1, n):
            f = M[i][k] / M[k][k]
            for j in range(k, n + len(cols)):
                M[i][j] -= f * M[k][j]
    X = [[0.0] * len(cols) for _ in range(n)]
    for c in range(len(cols)):
        for i in range(n - 1, -1, -1):
            s = M[i][n + c] - sum(M[i][j] * X[j][c] for j in range(i + 1, n))
            X[i][c] = s / M[i][i]
    if b.dim() == 1:
        return _result([X[i][0] for i in range(n)], (n,), a.dtype, (a, b))
    return _result([X[i][c] for i in range(n) for c in range(len(cols))], (n, len(cols)), a.dtype, (a, b))


def inv(a):
    from . import eye
    return solve(a, eye(a.size(0), dtype=a.dtype))


def norm(a, ord=None, dim=None, keepdim=False):
    if ord in (None, 2):
        import math
        vals = a._vals()
        if all(isinstance(v, (int, float)) for v in vals) and dim is None:
            from . import tensor
            return tensor(math.sqrt(sum(float(v) ** 2 for v in vals)), dtype=a.dtype)
        raise Unmodelled('2-norm of symbolic values')
    return a.norm(ord, dim, keepdim)
