from sx import Unmodelled


class functional:
    @staticmethod
    def normalize(*a, **k):
        raise Unmodelled('torch.nn.functional.normalize')
