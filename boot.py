"""boot -- put the symbolic torch model and the real fggs / torch_semiring_einsum
sources on sys.path.  Import this first in every harness run by python3-vt."""
import importlib.abc
import importlib.machinery
import os
import sys

VERIF = os.path.dirname(os.path.abspath(__file__))
REPO = os.environ.get('FGGS_REPO', '/repo')
TSE_SITE = '/venv/lib/python3.12/site-packages'

sys.dont_write_bytecode = True
for p in (REPO, os.path.join(VERIF, 'symtorch'), VERIF):
    if p in sys.path:
        sys.path.remove(p)
    sys.path.insert(0, p)


class _TSEFinder(importlib.abc.MetaPathFinder):
    """serve only the pinned, unmodified torch_semiring_einsum package from /venv"""

    def find_spec(self, name, path, target=None):
        if name == 'torch_semiring_einsum' or name.startswith('torch_semiring_einsum.'):
            if path is None:
                path = [TSE_SITE]
            return importlib.machinery.PathFinder.find_spec(name, path)
        return None


if not any(isinstance(f, _TSEFinder) for f in sys.meta_path):
    sys.meta_path.append(_TSEFinder())

import warnings  # noqa: E402
import torch     # noqa: E402  (the model)
assert getattr(torch, '__version__', '').endswith('symtorch'), 'real torch on path'
import fggs      # noqa: E402
assert os.path.realpath(fggs.__file__).startswith(os.path.realpath(REPO)), fggs.__file__
